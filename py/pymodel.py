"""Reference models in Python (independent of /repo and of the Rust harness models)."""
from fractions import Fraction

CLS = {}
for ch, v in (("A", 0), ("C", 1), ("G", 2), ("T", 3), ("U", 3)):
    CLS[ord(ch)] = v
    CLS[ord(ch.lower())] = v


def cls(b):
    return CLS.get(b)


def code_of(text):
    x = 0
    for b in text:
        c = CLS.get(b)
        if c is None:
            return None
        x = x * 4 + c
    return x


def text_of(x, k):
    out = []
    for _ in range(k):
        out.append("ACGT"[x % 4])
        x //= 4
    return "".join(reversed(out))


def rc_code(x, k):
    y = 0
    for _ in range(k):
        y = y * 4 + (3 - x % 4)
        x //= 4
    return y


def canon(x, k):
    return min(x, rc_code(x, k))


def windows(seq, k):
    """[(start, fwd, rev)] for every clean window"""
    out = []
    for i in range(0, len(seq) - k + 1):
        f = code_of(seq[i:i + k])
        if f is not None:
            out.append((i, f, rc_code(f, k)))
    return out


def canon_stream(seq, k):
    return [min(f, r) for _, f, r in windows(seq, k)]


_INDEX = {}


def canon_index(k):
    if k not in _INDEX:
        _INDEX[k] = [x for x in range(4 ** k) if x <= rc_code(x, k)]
    return _INDEX[k]


def header_names(k):
    return [text_of(x, k) for x in canon_index(k)]


def oligo(seq, k):
    idx = canon_index(k)
    pos = {c: i for i, c in enumerate(idx)}
    v = [0] * len(idx)
    t = 0
    for c in canon_stream(seq, k):
        v[pos[c]] += 1
        t += 1
    return v, t


def runs(seq, w, m):
    out = []
    if m == 0 or w < m or len(seq) < w:
        return out
    mm = []
    for j in range(len(seq) - m + 1):
        f = code_of(seq[j:j + m])
        mm.append(None if f is None else canon(f, m))
    prev = None
    for i in range(len(seq) - w + 1):
        if any(cls(b) is None for b in seq[i:i + w]):
            prev = None
            continue
        mini = min(mm[j] for j in range(i, i + w - m + 1))
        if prev is not None and prev[0] + 1 == i and prev[1] == mini:
            out[-1] = (out[-1][0], out[-1][1], i + w)
        else:
            out.append((mini, i, i + w))
        prev = (i, mini)
    return out


def counts(records, k):
    d = {}
    for r in records:
        for c in canon_stream(r, k):
            d[c] = d.get(c, 0) + 1
    return d


def histogram(seq, k, table, bin_size, bin_count):
    v = [0] * bin_count
    t = 0
    for c in canon_stream(seq, k):
        b = min(table.get(c, 0) // bin_size, bin_count - 1)
        v[b] += 1
        t += 1
    return v, t


def cgr(seq, s):
    """exact chaos-game points as Fractions, or None if a byte is not a nucleotide"""
    x = Fraction(s, 2)
    y = Fraction(s, 2)
    out = []
    for b in seq:
        c = cls(b)
        if c is None:
            return None
        cx, cy = ((0, 0), (0, s), (s, s), (s, 0))[c]
        x = (x + cx) / 2
        y = (y + cy) / 2
        out.append((x, y))
    return out


def close(val, c, t):
    exp = 0.0 if t == 0 else c / t
    return abs(val - exp) <= 5e-7 + 1e-12
