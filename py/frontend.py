"""Front end: builds, shards, crash containment, known findings, evidence, replay files."""
import hashlib
import json
import os
import shutil
import subprocess
import sys
import tempfile
import time

VERIF = os.path.dirname(os.path.dirname(os.path.abspath(__file__)))
REPO = os.environ.get("KTMC_REPO", "/repo")
HARNESS = os.path.join(VERIF, "harness")
TARGET = os.path.join(VERIF, ".target")
KTMC = os.path.join(TARGET, "hooks", "release", "ktmc")
CLI = os.path.join(TARGET, "cli", "release", "kmertools")
PYMOD_DIR = os.path.join(TARGET, "py", "pymod")
EVIDENCE = os.path.join(VERIF, "evidence")
REPLAYS = os.path.join(VERIF, "replays")
NCPU = max(1, min(16, os.cpu_count() or 1))


class Machinery(Exception):
    """engine failure: exit 2, never a verdict"""


def offline_env(extra=None):
    env = dict(os.environ)
    env["CARGO_NET_OFFLINE"] = "true"
    env.pop("RUSTFLAGS", None)  # the harness takes its flags from harness/.cargo/config.toml
    if extra:
        env.update(extra)
    return env


def run_logged(cmd, cwd, env, what, timeout=3600):
    t0 = time.time()
    p = subprocess.run(cmd, cwd=cwd, env=env, stdout=subprocess.PIPE, stderr=subprocess.STDOUT, timeout=timeout)
    if p.returncode != 0:
        sys.stderr.write(p.stdout.decode("utf-8", "replace")[-6000:])
        raise Machinery("%s failed (exit %d)" % (what, p.returncode))
    return time.time() - t0


def ensure_repo_link():
    """harness/Cargo.toml reaches the repository under test through the symlink <checkout>/.repo
    (/repo, or $KTMC_REPO for an isolated snapshot)"""
    link = os.path.join(VERIF, ".repo")
    try:
        if os.path.islink(link) and os.readlink(link) == REPO:
            return
        if os.path.islink(link) or os.path.exists(link):
            os.remove(link)
        os.symlink(REPO, link)
    except FileExistsError:
        pass


def build_harness():
    ensure_repo_link()
    lock = os.path.join(HARNESS, "Cargo.lock")
    if not os.path.exists(lock):
        shutil.copy(os.path.join(REPO, "Cargo.lock"), lock)
    try:
        run_logged(["cargo", "build", "--release", "--offline"], HARNESS, offline_env(), "harness build")
    except Machinery:
        # scc 2.2.5 (pinned by /repo) is yanked: a pruned lockfile cannot be re-resolved offline; re-seed once
        shutil.copy(os.path.join(REPO, "Cargo.lock"), lock)
        run_logged(["cargo", "build", "--release", "--offline"], HARNESS, offline_env(), "harness build")
    if not os.path.exists(KTMC):
        raise Machinery("ktmc binary missing after build")


def build_cli():
    env = offline_env({"CARGO_TARGET_DIR": os.path.join(TARGET, "cli")})
    run_logged(["cargo", "build", "--release", "--offline", "-p", "kmertools"], REPO, env, "kmertools CLI build")
    if not os.path.exists(CLI):
        raise Machinery("kmertools binary missing after build")


def build_py():
    env = offline_env({"CARGO_TARGET_DIR": os.path.join(TARGET, "py")})
    run_logged(["cargo", "build", "--release", "--offline", "-p", "pip"], REPO, env, "pykmertools build")
    so = os.path.join(TARGET, "py", "release", "libpykmertools.so")
    if not os.path.exists(so):
        raise Machinery("libpykmertools.so missing after build")
    os.makedirs(PYMOD_DIR, exist_ok=True)
    dst = os.path.join(PYMOD_DIR, "pykmertools.so")
    tmp = dst + ".tmp%d" % os.getpid()
    shutil.copy(so, tmp)
    os.replace(tmp, dst)


# ------------------------------------------------------------------------------------------------ reports

def empty_report():
    return {"evaluations": 0, "nontrivial": 0, "violation_count": 0, "counters": {}, "samples": [], "notes": [],
            "outcomes": [], "violations": []}


def merge_reports(reps):
    out = empty_report()
    outcomes = set()
    for r in reps:
        out["evaluations"] += r.get("evaluations", 0)
        out["nontrivial"] += r.get("nontrivial", 0)
        out["violation_count"] += r.get("violation_count", 0)
        for k, v in r.get("counters", {}).items():
            if k.endswith("_max"):
                out["counters"][k] = max(out["counters"].get(k, 0), v)
            else:
                out["counters"][k] = out["counters"].get(k, 0) + v
        for s in r.get("samples", []):
            if s not in out["samples"] and len(out["samples"]) < 12:
                out["samples"].append(s)
        for s in r.get("notes", []):
            if s not in out["notes"]:
                out["notes"].append(s)
        outcomes.update(r.get("outcomes", []))
        out["violations"].extend(r.get("violations", []))
    out["outcomes"] = sorted(outcomes)
    out["violations"].sort(key=lambda v: v.get("size", 0))
    return out


def run_ktmc(check, tier, nshards=NCPU, extra_env=None, timeout=None):
    """run all shards of one ktmc check in parallel, with crash containment; returns the merged report"""
    tmp = tempfile.mkdtemp(prefix="ktmc-out-", dir=scratch_base())
    procs = []
    env = offline_env(extra_env)
    env["KTMC_SCRATCH"] = scratch_base()
    # wall-time budget of one schedule exploration (one case on one shard); on the unchanged tree no case comes near it
    env.setdefault("KTMC_CASE_BUDGET_S", "1800" if tier == "thorough" else "60")
    try:
        for i in range(nshards):
            out = os.path.join(tmp, "shard%d.json" % i)
            log = open(os.path.join(tmp, "shard%d.log" % i), "wb")
            p = subprocess.Popen([KTMC, "run", check, tier, str(i), str(nshards), out], env=env, stdout=log,
                                 stderr=subprocess.STDOUT)
            procs.append((i, p, out, log))
        reps = []
        deadline = time.time() + (timeout or (6 * 3600 if tier == "thorough" else 1500))
        for i, p, out, log in procs:
            try:
                rc = p.wait(timeout=max(1, deadline - time.time()))
            except subprocess.TimeoutExpired:
                for _, q, _, _ in procs:
                    q.kill()
                raise Machinery("ktmc %s shard %d exceeded the wall-clock cap" % (check, i))
            log.close()
            if rc == 0 and os.path.exists(out):
                reps.append(json.load(open(out)))
                continue
            logtxt = open(log.name, "rb").read().decode("utf-8", "replace")[-3000:]
            if rc == 2:
                sys.stderr.write(logtxt)
                raise Machinery("ktmc %s shard %d reported a machinery error" % (check, i))
            # abnormal death (abort from a violated unsafe precondition, allocation failure, signal):
            # re-run the shard in journalling mode to name the case
            jpath = os.path.join(tmp, "journal%d.txt" % i)
            env2 = dict(env)
            env2["KTMC_JOURNAL"] = jpath
            out2 = os.path.join(tmp, "shard%d.retry.json" % i)
            p2 = subprocess.run([KTMC, "run", check, tier, str(i), str(nshards), out2], env=env2,
                                stdout=subprocess.PIPE, stderr=subprocess.STDOUT)
            if p2.returncode == 0 and os.path.exists(out2):
                # not reproducible (allocation failure or a kill under memory pressure, typically): no verdict can rest
                # on it; the re-run did the whole of the shard's work, so its report stands, and the incident is named
                r2 = json.load(open(out2))
                r2.setdefault("notes", []).append("ktmc %s shard %d ended abnormally once (rc=%s) and completed when run again in journalling mode; the report of the second run is used" % (check, i, rc))
                r2.setdefault("counters", {})["engine.shards_run_again_after_abnormal_end"] = 1
                reps.append(r2)
                continue
            case = open(jpath).read() if os.path.exists(jpath) else "(no journal)"
            tail = p2.stdout.decode("utf-8", "replace")[-1500:]
            r = empty_report()
            r["violation_count"] = 1
            r["violations"] = [{"key": "abort", "size": 0,
                                "desc": "process died (rc=%s) while executing case: %s\n--- output tail ---\n%s" % (
                                    p2.returncode, case, tail),
                                "argv": ["journal", check, tier, str(i), str(nshards)]}]
            reps.append(r)
        return merge_reports(reps)
    finally:
        for _, p, _, log in procs:
            if p.poll() is None:
                p.kill()
            try:
                log.close()
            except Exception:
                pass
        shutil.rmtree(tmp, ignore_errors=True)


_SCRATCH = None


def scratch_base():
    global _SCRATCH
    if _SCRATCH is None:
        base = os.environ.get("KTMC_SCRATCH")
        if not base:
            base = "/dev/shm" if os.path.isdir("/dev/shm") and os.access("/dev/shm", os.W_OK) else os.path.join(
                VERIF, ".scratch")
        os.makedirs(base, exist_ok=True)
        # scratch left behind by killed runs (older than six hours) is removed; live runs are never touched
        try:
            now = time.time()
            for name in os.listdir(base):
                if name.startswith(("ktv-", "ktmc-")):
                    p = os.path.join(base, name)
                    if now - os.path.getmtime(p) > 6 * 3600:
                        shutil.rmtree(p, ignore_errors=True)
        except OSError:
            pass
        _SCRATCH = tempfile.mkdtemp(prefix="ktv-%d-" % os.getpid(), dir=base)
    return _SCRATCH


def cleanup_scratch():
    global _SCRATCH
    if _SCRATCH:
        shutil.rmtree(_SCRATCH, ignore_errors=True)
        _SCRATCH = None


# ------------------------------------------------------------------------------------------------ known findings

def load_known():
    path = os.path.join(VERIF, "known_findings.txt")
    findings = []
    if os.path.exists(path):
        for line in open(path):
            line = line.strip()
            if not line.startswith("finding:"):
                continue  # comments and 'fixed:' lines suppress nothing
            fields = dict(f.split("=", 1) for f in line[len("finding:"):].split() if "=" in f)
            findings.append({"property": fields.get("property"), "key": fields.get("key"),
                             "contains": fields.get("contains"), "text": line[len("finding:"):].strip()})
    return findings


def is_known(prop, v, known):
    for k in known:
        if k["property"] == prop and k["key"] == v.get("key"):
            if k["contains"] and k["contains"] not in v.get("desc", ""):
                continue
            return k
    return None


# ------------------------------------------------------------------------------------------------ main flow

def write_replay(prop, v):
    os.makedirs(REPLAYS, exist_ok=True)
    body = {"property": prop, "key": v.get("key"), "desc": v.get("desc"), "argv": v.get("argv"),
            "runner": v.get("runner", "ktmc")}
    h = hashlib.sha1(json.dumps(body, sort_keys=True).encode()).hexdigest()[:12]
    path = os.path.join(REPLAYS, "%s-%s.json" % (prop, h))
    json.dump(body, open(path, "w"), indent=1)
    return path


def decide(prop, tier):
    import props
    spec = props.PROPS.get(prop)
    if spec is None:
        raise Machinery("no check registered for %s" % prop)
    t0 = time.time()
    seed = int(os.environ.get("VERIF_SEED", "0") or 0)
    for need in spec.get("needs", ["harness"]):
        {"harness": build_harness, "cli": build_cli, "py": build_py}[need]()
    reps = []
    engine_failures = []
    for part in spec["parts"]:
        # an engine failure in one part (exit 2 of the whole check unless another part shows a violation with a
        # replayable case: what the real code was seen doing stands whatever happened to another engine)
        try:
            reps.append(part(tier))
        except Machinery as e:
            engine_failures.append(str(e))
    if not reps:
        raise Machinery("; ".join(engine_failures))
    rep = merge_reports(reps)
    if engine_failures and rep["violation_count"] == 0:
        raise Machinery("; ".join(engine_failures))
    if engine_failures:
        rep["notes"].append("engine failure in another part of this check (its space was not explored in this run): " + "; ".join(engine_failures)[:500])
    known = load_known()
    new, old = [], {}
    for v in rep["violations"]:
        k = is_known(prop, v, known)
        if k:
            old.setdefault(k["text"], 0)
            old[k["text"]] += 1
        else:
            new.append(v)
    cov = {
        "evaluations": rep["evaluations"],
        "distinct_nontrivial": rep["nontrivial"],
        "rule": spec["rule"],
        "samples": rep["samples"] or ["(no sample recorded)"],
        "exhaustive": bool(spec.get("exhaustive", True)) and rep["counters"].get("sched.capped_explorations", 0) == 0,
        "counters": rep["counters"],
        "notes": rep["notes"],
        "distinct_outcomes": len(rep["outcomes"]),
    }
    if rep["outcomes"]:
        cov["outcomes_sample"] = rep["outcomes"][:40]
    c = rep["counters"]
    st = spec.get("states")
    if st:
        states = sum(c.get(n, 0) for n in st[0])
        trans = sum(c.get(n, 0) for n in st[1])
        traces = sum(c.get(n, 0) for n in st[2])
        if states > 0 and trans > 0:
            cov["states"] = states
            cov["transitions"] = trans
            cov["traces_validated_against_impl"] = traces
    ev = {
        "property_id": prop,
        "tier": tier,
        "seed": seed,
        "level": "model_checking",
        "coverage": cov,
        "assumptions": spec.get("assumptions", []),
        "wall_s": round(time.time() - t0, 2),
        "violations": rep["violation_count"] if new else 0,
    }
    os.makedirs(EVIDENCE, exist_ok=True)
    tmp = os.path.join(EVIDENCE, ".%s.json.tmp%d" % (prop, os.getpid()))
    json.dump(ev, open(tmp, "w"), indent=1)
    os.replace(tmp, os.path.join(EVIDENCE, "%s.json" % prop))
    for text, n in old.items():
        print("KNOWN-FINDING: property=%s %s (%d case(s) this run)" % (prop, text, n))
    if new:
        seen = set()
        for v in new:
            if v.get("key") in seen:
                continue
            seen.add(v.get("key"))
            path = write_replay(prop, v)
            print("VIOLATION property=%s replay=%s" % (prop, path))
            print("  [%s] %s" % (v.get("key"), (v.get("desc") or "")[:1500]))
        return 1
    print("OK property=%s tier=%s evaluations=%d nontrivial=%d wall=%.1fs" % (
        prop, tier, rep["evaluations"], rep["nontrivial"], time.time() - t0))
    return 0


def replay(path):
    body = json.load(open(path))
    runner = body.get("runner", "ktmc")
    if runner == "ktmc":
        build_harness()
        argv = body["argv"]
        if argv and argv[0] == "journal":
            env = offline_env({"KTMC_SCRATCH": scratch_base()})
            out = os.path.join(scratch_base(), "replay.json")
            p = subprocess.run([KTMC, "run"] + argv[1:] + [out], env=env)
            if p.returncode == 0:
                print("REPLAY-OK (shard completed)")
                return 0
            print("VIOLATION property=%s replay=%s" % (body["property"], path))
            return 1
        # the kernel limits one argument to 128 KiB: longer ones travel in files
        for i, a in enumerate(argv):
            if len(a) > 100000:
                fn = os.path.join(scratch_base(), "replay-arg-%d-%d" % (os.getpid(), i))
                with open(fn, "w") as f:
                    f.write(a)
                argv[i] = "@file:" + fn
        p = subprocess.run([KTMC] + argv, env=offline_env({"KTMC_SCRATCH": scratch_base()}))
        if p.returncode == 1:
            print("VIOLATION property=%s replay=%s" % (body["property"], path))
        return p.returncode
    import props
    return props.replay_py(body, path)


def setup():
    os.makedirs(EVIDENCE, exist_ok=True)
    build_harness()
    build_cli()
    build_py()
    print("setup ok")
    return 0


def main(argv):
    try:
        if not argv:
            print(__doc__)
            return 2
        if argv[0] == "setup":
            return setup()
        if argv[0] == "--replay":
            return replay(argv[1])
        prop = argv[0]
        tier = argv[1] if len(argv) > 1 else os.environ.get("VERIF_TIER", "quick")
        if tier not in ("quick", "thorough"):
            raise Machinery("tier must be quick or thorough")
        return decide(prop, tier)
    except Machinery as e:
        sys.stderr.write("MACHINERY-ERROR: %s\n" % e)
        return 2
    finally:
        cleanup_scratch()
