#!/bin/bash
# runs every registered check at the given tier (default quick) on the current tree; prints one line per check
tier=${1:-quick}; cd "$(dirname "$0")/.."
for id in $(python3 -c "import json; print(' '.join(c['property_id'] for c in json.load(open('MANIFEST.json'))['checks']))"); do
  s=$(date +%s.%N); out=$(./check $id $tier 2>&1); rc=$?; e=$(date +%s.%N)
  printf "%s rc=%d %.1fs %s\n" $id $rc $(echo "$e - $s" | bc) "$(echo "$out" | tail -1 | cut -c1-150)"
done
