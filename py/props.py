"""Per-property registry: which engine parts decide a property, and how its evidence is described."""
import frontend as fe


def ktmc(check, **kw):
    def part(tier):
        return fe.run_ktmc(check, tier, **kw)
    return part


COMMON_ASSUME = [
    "the harness binary links the /repo crates by path and is rebuilt from /repo's working tree by every check "
    "(release profile with debug-assertions and overflow-checks on, --cfg kmertools_verif)",
    "reference models in /verif/harness/src/model.rs are correct (they share no code with /repo)",
]

PROPS = {
    "C01": {
        "parts": [ktmc("C01")],
        "rule": "bounded-exhaustive enumeration (odometer, no sampling) of inputs to KmerGenerator against the "
                "window model: (1) every string over {A,C,G,T,N} up to the stated length x every k; (2) every byte "
                "value 4..=255 in every short clean context; (3) transition cover of the reference machine (states = "
                "clean suffixes of length <= k; every state x every input class x every continuation, from 3 "
                "prefixes); (4) structured long inputs for every k 1..=31. A case is counted non-trivial when the "
                "input is at least k long, and counted once (cases of later families that also lie in the small "
                "scope are not counted again).",
        "states": (["model_states_max"], ["model_transitions_max"], ["traces_validated"]),
        "assumptions": COMMON_ASSUME + [
            "completeness beyond the enumerated lengths rests on the W-method assumption that the implementation is "
            "a deterministic machine with at most (model states + D) states; raw bytes 0x00-0x03 are excluded as "
            "the property leaves them unspecified"],
    },
    "C02": {
        "parts": [ktmc("C02")],
        "rule": "every code x < 4^k for all small k (rev_comp involution, agreement with text-level reverse "
                "complement, decode/re-encode), a digit-pattern family (prefix/fill/suffix, extremes, palindromes) "
                "for every larger k up to 31, and strand symmetry of the iterator on every string over {A,C,G,T,N} "
                "up to the stated length x k 1..=5 plus structured inputs for k 6..=31; every case is distinct; "
                "non-trivial = code checks (all) and streams with at least one window position",
        "assumptions": COMMON_ASSUME + ["codes for k above the exhaustive bound are covered by the stated family only"],
    },
    "C09": {
        "parts": [ktmc("C09")],
        "rule": "bounded-exhaustive enumeration of (sequence, w, m) for MinimiserGenerator against a brute-force "
                "model of maximal same-minimiser runs: every string over {A,C,G,T,N} up to the stated length x all "
                "15 pairs m<=w<=5; transition cover (states = clean suffixes of length <= w) for w in 6..8 and every "
                "m; structured low-complexity inputs with embedded N for every m 1..=31 and w up to m+60. "
                "Non-trivial = input at least w long; class counters show ties, change-at-last-base and short "
                "trailing stretches are all populated.",
        "states": (["model_states_max"], ["model_transitions_max"], ["traces_validated"]),
        "assumptions": COMMON_ASSUME + ["W-method assumption as for C01 for inputs longer than enumerated"],
    },
    "C18": {
        "parts": [ktmc("C18")],
        "rule": "same spaces as C09 restricted to w<=31; oracle: runs identical to the plain iterator's on the same "
                "input (differential) and concatenation of the attached k-mer lists = canonical w-mers of the model "
                "in order. Non-trivial = input at least w long.",
        "states": (["model_states_max"], ["model_transitions_max"], ["traces_validated"]),
        "assumptions": COMMON_ASSUME,
    },
}


def replay_py(body, path):
    raise fe.Machinery("no python replay runner for %s" % body.get("runner"))
NOT_APPLICABLE = {}
