"""Per-property registry: which engine parts decide a property, and how its evidence is described."""
import frontend as fe


def ktmc(check, **kw):
    def part(tier):
        return fe.run_ktmc(check, tier, **kw)
    return part


COMMON_ASSUME = [
    "the harness binary links the /repo crates by path and is rebuilt from /repo's working tree by every check "
    "(release profile with debug-assertions and overflow-checks on, --cfg kmertools_verif)",
    "reference models in /verif/harness/src/model.rs are correct (they share no code with /repo)",
]

PROPS = {
    "C01": {
        "parts": [ktmc("C01")],
        "rule": "bounded-exhaustive enumeration (odometer, no sampling) of inputs to KmerGenerator against the "
                "window model: (1) every string over {A,C,G,T,N} up to the stated length x every k; (2) every byte "
                "value 4..=255 in every short clean context; (3) transition cover of the reference machine (states = "
                "clean suffixes of length <= k; every state x every input class x every continuation, from 3 "
                "prefixes); (4) structured long inputs for every k 1..=31. A case is counted non-trivial when the "
                "input is at least k long, and counted once (cases of later families that also lie in the small "
                "scope are not counted again).",
        "states": (["model_states_max"], ["model_transitions_max"], ["traces_validated"]),
        "assumptions": COMMON_ASSUME + [
            "completeness beyond the enumerated lengths rests on the W-method assumption that the implementation is "
            "a deterministic machine with at most (model states + D) states; raw bytes 0x00-0x03 are excluded as "
            "the property leaves them unspecified"],
    },
    "C02": {
        "parts": [ktmc("C02")],
        "rule": "every code x < 4^k for all small k (rev_comp involution, agreement with text-level reverse "
                "complement, decode/re-encode), a digit-pattern family (prefix/fill/suffix, extremes, palindromes) "
                "for every larger k up to 31, and strand symmetry of the iterator on every string over {A,C,G,T,N} "
                "up to the stated length x k 1..=5 plus structured inputs for k 6..=31; every case is distinct; "
                "non-trivial = code checks (all) and streams with at least one window position",
        "assumptions": COMMON_ASSUME + ["codes for k above the exhaustive bound are covered by the stated family only"],
    },
    "C09": {
        "parts": [ktmc("C09")],
        "rule": "bounded-exhaustive enumeration of (sequence, w, m) for MinimiserGenerator against a brute-force "
                "model of maximal same-minimiser runs: every string over {A,C,G,T,N} up to the stated length x all "
                "15 pairs m<=w<=5; transition cover (states = clean suffixes of length <= w) for w in 6..8 and every "
                "m; structured low-complexity inputs with embedded N for every m 1..=31 and w up to m+60. "
                "Non-trivial = input at least w long; class counters show ties, change-at-last-base and short "
                "trailing stretches are all populated.",
        "states": (["model_states_max"], ["model_transitions_max"], ["traces_validated"]),
        "assumptions": COMMON_ASSUME + ["W-method assumption as for C01 for inputs longer than enumerated"],
    },
    "C18": {
        "parts": [ktmc("C18")],
        "rule": "same spaces as C09 restricted to w<=31; oracle: runs identical to the plain iterator's on the same "
                "input (differential) and concatenation of the attached k-mer lists = canonical w-mers of the model "
                "in order. Non-trivial = input at least w long.",
        "states": (["model_states_max"], ["model_transitions_max"], ["traces_validated"]),
        "assumptions": COMMON_ASSUME,
    },
}

PROPS.update({
    "C03": {
        "parts": [ktmc("C03")],
        "rule": "every k in 1..=10 with all 4^k codes: column count = closed form, every canonical code maps to its "
                "rank in the sorted model index and the inverse map returns it; header through get_header (k<=8) and "
                "through both writer paths x 3 delimiters (k<=6). Non-trivial = each canonical code / header checked.",
        "assumptions": COMMON_ASSUME,
    },
    "C04": {
        "parts": [ktmc("C04")],
        "rule": "per-record routine on every string over {A,C,G,T,N} up to the stated length x k 1..=4, mixed-case/U "
                "strings x k 1..=3 and structured inputs for k 5..=8, raw and normalised, each with its reverse "
                "complement / lower-case / U-for-T variant; the file API on all short strings as one FASTA through "
                "the mmap writer (3 and 16 threads), the batch writer (default and 7-base limit) and counts mode. "
                "Oracle: integer counts per canonical rank and exact ratio c/t within 5e-7. Non-trivial = record "
                "with at least one window position.",
        "assumptions": COMMON_ASSUME + ["rayon's schedule inside par_iter().collect() of the batch writer is not controlled (trusted ordered collect)"],
    },
    "C06": {
        "parts": [ktmc("C06")],
        "rule": "every list of 0..=3 (thorough 4) records from 8 variants (2 header shapes x base lengths 0,1,2,5) "
                "serialised 9 ways (FASTA one-line / wrapped 1,2,3 / CRLF / no final newline; FASTQ / CRLF / no final "
                "newline) in plain, single-member gzip (compressed and stored), gzip with a member boundary at every "
                "record boundary, with an empty member, and at every byte offset of the first 40 bytes; long records "
                "at buffer edges (8 KiB, 32 KiB, 64 KiB, 70 000); each file read through the iterator and seq_stats "
                "and compared with the generating list. Non-trivial = file with at least one record.",
        "assumptions": COMMON_ASSUME + ["gzip members are produced by flate2 (compressed level 6 and stored level 0)"],
    },
    "C08": {
        "parts": [ktmc("C08")],
        "rule": "per-record histogram routine on every string over {A,C,G,T,N} up to the stated length x k 1..=3 x 6 "
                "bin shapes with synthetic tables (multiplicities at the bin edges, 10^6, u32::MAX, absent); the "
                "whole pipeline on every list of <= 2 (thorough 3) short records x k x bin shapes x norm/raw x "
                "(threads, memory) settings with the same or a different counting input; high-multiplicity and "
                "200-record inputs; compute_coverages on harness-written tables. Oracle: model histogram, one row "
                "per record in order. Non-trivial = record with at least one window position.",
        "assumptions": COMMON_ASSUME + ["worker threads of the counting step run free in this check (their interleavings are decided in C07)",
                                        "'flush every few records' cannot be reached: the batch threshold is a whole number of GiB"],
    },
    "C11": {
        "parts": [ktmc("C11")],
        "rule": "every string over {A,C,G,T} up to the stated length and every mixed-case/U string up to length 5-6 x "
                "7 square sizes, bit-exact against an exact dyadic-rational model; every string with a bad byte over "
                "{A,C,G,T,N,x} and every byte value outside the ten letters in short contexts must be refused; long "
                "periodic inputs for prefix determinism and sub-square containment; the file path on 7 record sets "
                "x threads 1..=16 x 3 batch limits. Non-trivial = non-empty input.",
        "assumptions": COMMON_ASSUME + ["rayon's schedule inside the batch par_iter is not controlled (trusted ordered collect)"],
    },
    "C12": {
        "parts": [ktmc("C12")],
        "rule": "k 1..=7 x 5 square sizes x norm/raw: every string over {A,C,G,T,N} up to the stated length (k<=3) or "
                "a structured family (k 4..=7): one triple per canonical column in rank order, coordinates bit-exact "
                "= chaos-game end point of the column's k-mer text, frequency identical to the oligo vector and to "
                "the model; file path x threads x batch limits. Non-trivial = record at least k long.",
        "assumptions": COMMON_ASSUME + ["rayon's schedule inside the batch par_iter is not controlled (trusted ordered collect)"],
    },
})


def replay_py(body, path):
    raise fe.Machinery("no python replay runner for %s" % body.get("runner"))
NOT_APPLICABLE = {}
