"""Per-property registry: which engine parts decide a property, and how its evidence is described."""
import frontend as fe


def ktmc(check, **kw):
    def part(tier):
        return fe.run_ktmc(check, tier, **kw)
    return part


COMMON_ASSUME = [
    "the harness binary links the /repo crates by path and is rebuilt from /repo's working tree by every check "
    "(release profile with debug-assertions and overflow-checks on, --cfg kmertools_verif)",
    "reference models in /verif/harness/src/model.rs are correct (they share no code with /repo)",
]

PROPS = {
    "C01": {
        "parts": [ktmc("C01")],
        "rule": "bounded-exhaustive enumeration (odometer, no sampling) of inputs to KmerGenerator against the "
                "window model: (1) every string over {A,C,G,T,N} up to the stated length x every k; (2) every byte "
                "value 4..=255 in every short clean context; (3) transition cover of the reference machine (states = "
                "clean suffixes of length <= k; every state x every input class x every continuation, from 3 "
                "prefixes); (4) structured long inputs for every k 1..=31. A case is counted non-trivial when the "
                "input is at least k long, and counted once (cases of later families that also lie in the small "
                "scope are not counted again). Every case of 16..=4096 bytes is run again at each of the seven other start addresses modulo 8 (longer inputs: one other). One record of 2^32 + 1000 unambiguous bases is streamed through the iterator: number of pairs, both ends against the model, pairs on a stride.",
        "states": (["model_states_max"], ["model_transitions_max"], ["traces_validated"]),
        "assumptions": COMMON_ASSUME + [
            "completeness beyond the enumerated lengths rests on the W-method assumption that the implementation is "
            "a deterministic machine with at most (model states + D) states; raw bytes 0x00-0x03 are excluded as "
            "the property leaves them unspecified"],
    },
    "C02": {
        "parts": [ktmc("C02"), lambda tier: __import__("hist").c_first_calls(tier)],
        "rule": "every code x < 4^k for all small k (rev_comp involution, agreement with text-level reverse "
                "complement, decode/re-encode), a digit-pattern family (prefix/fill/suffix, extremes, palindromes) "
                "for every larger k up to 31, and strand symmetry of the iterator on every string over {A,C,G,T,N} "
                "up to the stated length x k 1..=5 plus structured inputs for k 6..=31; every case is distinct; "
                "non-trivial = code checks (all) and streams with at least one window position One record of 2^32 + 1000 unambiguous bases: number of pairs, both ends, (code, reverse complement) on a stride. The first calls of a fresh process made by 8 threads released together (decoding, reverse complement, index maps of different k, both iterators against the model): 60 fresh processes, thorough 600 (free-running).",
        "assumptions": COMMON_ASSUME + ["codes for k above the exhaustive bound are covered by the stated family only"],
    },
    "C09": {
        "parts": [ktmc("C09")],
        "rule": "bounded-exhaustive enumeration of (sequence, w, m) for MinimiserGenerator against a brute-force "
                "model of maximal same-minimiser runs: every string over {A,C,G,T,N} up to the stated length x all "
                "15 pairs m<=w<=5; transition cover (states = clean suffixes of length <= w) for w in 6..8 and every "
                "m; structured low-complexity inputs with embedded N for every m 1..=31 and w up to m+60. "
                "Non-trivial = input at least w long; class counters show ties, change-at-last-base and short "
                "trailing stretches are all populated. Windows with 255..257, 65 535..65 537, 100 000 and 131 072 m-mer slots on 600 000-base inputs against a second (monotone-queue) model that is held against the defining one on every short input first; one minimiser over more than 2^22 windows; start addresses as in C01.",
        "states": (["model_states_max"], ["model_transitions_max"], ["traces_validated"]),
        "assumptions": COMMON_ASSUME + ["W-method assumption as for C01 for inputs longer than enumerated"],
    },
    "C18": {
        "parts": [ktmc("C18")],
        "rule": "same spaces as C09 restricted to w<=31; oracle: runs identical to the plain iterator's on the same "
                "input (differential) and concatenation of the attached k-mer lists = canonical w-mers of the model "
                "in order. Non-trivial = input at least w long.",
        "states": (["model_states_max"], ["model_transitions_max"], ["traces_validated"]),
        "assumptions": COMMON_ASSUME,
    },
}

PROPS.update({
    "C03": {
        "needs": ["harness", "cli", "py"],
        "parts": [ktmc("C03"), lambda tier: __import__("hist").c03_cli(tier), lambda tier: __import__("hist").c_env_cpus(tier, ['header'])],
        "rule": "every k in 1..=10 with all 4^k codes: column count = closed form, every canonical code maps to its "
                "rank in the sorted model index and the inverse map returns it; header through get_header (k<=8) and "
                "through both writer paths x 3 delimiters (k<=6); header line of `kmertools comp oligo -H` for k 3..=7 x 3 presets x "
                "(default, -c) and of pykmertools get_header for k 1..=8. Non-trivial = each canonical code / header checked. The index maps (all codes) and the header line for k 1..=7 are recomputed under `taskset` with 1, 2, 3 and 6 usable CPUs (thorough: every count below the machine's). Header line before one batch of 41 MB of rows (9 000 records, k 4 and 5, file and standard input, both writers): first line, once.",
        "assumptions": COMMON_ASSUME,
    },
    "C04": {
        "technique": "bounded-exhaustive enumeration of inputs and configurations against a reference model, plus stateless controlled-scheduler exploration of the items of the data-parallel batch path",
        "needs": ["harness", "cli", "py"],
        "parts": [ktmc("C04"), ktmc("C04batch"), lambda tier: __import__("hist").c04_cli(tier)],
        "rule": "per-record routine on every string over {A,C,G,T,N} up to the stated length x k 1..=4, mixed-case/U "
                "strings x k 1..=3 and structured inputs for k 5..=8, raw and normalised, each with its reverse "
                "complement / lower-case / U-for-T variant; the file API on all short strings as one FASTA through "
                "the mmap writer (3 and 16 threads), the batch writer (default and 7-base limit) and counts mode; the release binary (k 3..=5, default and -c, 1 "
                "and 16 threads) and the Python binding (k 1..=3) on every string up to length 4 (thorough 5). "
                "Oracle: integer counts per canonical rank and exact ratio c/t within 5e-7. Non-trivial = record "
                "with at least one window position."
                " Batch path under the controlled scheduler: every order in which the items of a batch of 2 or 3 records run (4 records: up to the stated preemption bound), one batch and several batches, each item being a task whose shim lock / atomic operations are scheduling points; oracle per schedule: the bytes of the one-thread run.",
        "assumptions": COMMON_ASSUME + ["batches with more items than pool threads run free (which items start first is then rayon's choice); tasks that do not announce themselves (a bare scope.spawn) are not scheduled"],
    },
    "C06": {
        "parts": [ktmc("C06")],
        "rule": "every list of 0..=3 (thorough 4) records from 11 variants (3 header shapes incl. an empty header line x base lengths 0,1,2,5; the record with neither header text nor bases is left out) "
                "serialised 9 ways (FASTA one-line / wrapped 1,2,3 / CRLF / no final newline; FASTQ / CRLF / no final "
                "newline) in plain, single-member gzip (compressed and stored), gzip with a member boundary at every "
                "record boundary, with an empty member, and at every byte offset of the first 40 bytes; long records "
                "at buffer edges (8 KiB, 32 KiB, 64 KiB, 70 000); each file read through the iterator and seq_stats "
                "and compared with the generating list. Non-trivial = file with at least one record. Ids in sequencer / pipeline spellings (mate suffixes, pipes), id-less headers with a description, ids with 2-, 3- and 4-byte characters across the 4 Ki..128 Ki offsets of the text and across a gzip member boundary; mismatching .fai/.gzi side-cars next to every other input.",
        "assumptions": COMMON_ASSUME + ["gzip members are produced by flate2 (compressed level 6 and stored level 0)"],
    },
    "C08": {
        "technique": "bounded-exhaustive enumeration of inputs and configurations against a reference model, plus stateless controlled-scheduler exploration of the items of the data-parallel batch path",
        "needs": ["harness", "cli"],
        "parts": [ktmc("C08"), ktmc("C08batch"), lambda tier: __import__("hist").c_env_threads(tier, ["cov"]), lambda tier: __import__("hist").c_env_cpus(tier, ['cov'])],
        "rule": "per-record histogram routine on every string over {A,C,G,T,N} up to the stated length x k 1..=3 x 6 "
                "bin shapes with synthetic tables (multiplicities at the bin edges, 10^6, u32::MAX, absent); the "
                "whole pipeline on every list of <= 2 (thorough 3) short records x k x bin shapes x norm/raw x "
                "(threads, memory) settings with the same or a different counting input; high-multiplicity and "
                "200-record inputs; compute_coverages on harness-written tables. Oracle: model histogram, one row "
                "per record in order. Non-trivial = record with at least one window position."
                " Batch path under the controlled scheduler: every order in which the items of a batch of 2 or 3 records run (4 records: up to the stated preemption bound), one batch and several batches, each item being a task whose shim lock / atomic operations are scheduling points; oracle per schedule: the bytes of the one-thread run. Usable CPUs as an environment dimension: the command line under `taskset` with 1, 2, 3 and 6 usable CPUs (thorough: every count below the machine's) x -t in (0,1,2,3,4,8,16) x 3, 16 and 37 records; oracle: the result of the unrestricted one-thread run. Large k (22, 25, 31): windows along a single-base stretch a little shorter than k, with different multiplicities.",
        "assumptions": COMMON_ASSUME + ["worker threads of the counting step run free in this check (their interleavings are decided in C07)",
                                        "'flush every few records' cannot be reached: the batch threshold is a whole number of GiB"],
    },
    "C11": {
        "technique": "bounded-exhaustive enumeration of inputs and configurations against a reference model, plus stateless controlled-scheduler exploration of the items of the data-parallel batch path",
        "needs": ["harness", "cli"],
        "parts": [ktmc("C11"), ktmc("C11batch"), lambda tier: __import__("hist").c_env_cpus(tier, ['cgr']), lambda tier: __import__("hist").c_sink_fifo(tier, ['cgr']), lambda tier: __import__("hist").c_source_fifo(tier, ['cgr'])],
        "rule": "every string over {A,C,G,T} up to the stated length and every mixed-case/U string up to length 5-6 x "
                "7 square sizes, bit-exact against an exact dyadic-rational model; every string with a bad byte over "
                "{A,C,G,T,N,x} and every byte value outside the ten letters in short contexts must be refused; long "
                "periodic inputs for prefix determinism and sub-square containment; the file path on 7 record sets "
                "x threads 1..=16 x 3 batch limits. Non-trivial = non-empty input."
                " Batch path under the controlled scheduler: every order in which the items of a batch of 2 or 3 records run (4 records: up to the stated preemption bound), one batch and several batches, each item being a task whose shim lock / atomic operations are scheduling points; oracle per schedule: the bytes of the one-thread run. Usable CPUs as an environment dimension: the command line under `taskset` with 1, 2, 3 and 6 usable CPUs (thorough: every count below the machine's) x -t in (0,1,2,3,4,8,16) x 3, 16 and 37 records; oracle: the result of the unrestricted one-thread run. Output as a FIFO with a slow reader (8 threads, 9 MB of long lines; free-running, one execution per kind, thorough three): same canonical content as the one-thread run into a regular file. FIFO input.",
        "assumptions": COMMON_ASSUME + ["batches with more items than pool threads run free (which items start first is then rayon's choice); tasks that do not announce themselves (a bare scope.spawn) are not scheduled"],
    },
    "C12": {
        "technique": "bounded-exhaustive enumeration of inputs and configurations against a reference model, plus stateless controlled-scheduler exploration of the items of the data-parallel batch path",
        "needs": ["harness", "cli"],
        "parts": [ktmc("C12"), ktmc("C12batch"), lambda tier: __import__("hist").c_env_cpus(tier, ['kcgr']), lambda tier: __import__("hist").c_sink_fifo(tier, ['kcgr']), lambda tier: __import__("hist").c_source_fifo(tier, ['kcgr']), lambda tier: __import__("hist").c12_huge_output(tier), lambda tier: __import__("hist").c_giant_record_in_the_middle(tier, ["kcgr"])],
        "rule": "k 1..=7 x 5 square sizes x norm/raw: every string over {A,C,G,T,N} up to the stated length (k<=3) or "
                "a structured family (k 4..=7): one triple per canonical column in rank order, coordinates bit-exact "
                "= chaos-game end point of the column's k-mer text, frequency identical to the oligo vector and to "
                "the model; file path x threads x batch limits. Non-trivial = record at least k long."
                " Batch path under the controlled scheduler: every order in which the items of a batch of 2 or 3 records run (4 records: up to the stated preemption bound), one batch and several batches, each item being a task whose shim lock / atomic operations are scheduling points; oracle per schedule: the bytes of the one-thread run. Usable CPUs as an environment dimension: the command line under `taskset` with 1, 2, 3 and 6 usable CPUs (thorough: every count below the machine's) x -t in (0,1,2,3,4,8,16) x 3, 16 and 37 records; oracle: the result of the unrestricted one-thread run. Output as a FIFO with a slow reader (8 threads, 9 MB of long lines; free-running, one execution per kind, thorough three): same canonical content as the one-thread run into a regular file. Thorough tier: one batch of 2.3 GB of text (10 400 reads, k = 7) equals the outputs of its two halves. One record of 2^28 + 5 bases between two short ones on the command line: rows in input order. FIFO input.",
        "assumptions": COMMON_ASSUME + ["batches with more items than pool threads run free (which items start first is then rayon's choice); tasks that do not announce themselves (a bare scope.spawn) are not scheduled"],
    },
})

def bounds_monitor(check):
    """run another property's enumeration as a bounds monitor: only executions that died on a violated unsafe
    precondition / out-of-range index (abort of the debug-assertion build, or such a panic) are C14's business"""
    def part(tier):
        rep = fe.run_ktmc(check, tier, extra_env={"KTMC_MONITOR": "1"})
        keep = []
        for v in rep["violations"]:
            d = v.get("desc", "")
            if v.get("key") == "abort" or "unsafe precondition" in d or "index out of bounds" in d or "out of range for slice" in d:
                keep.append(v)
        counters = {k: val for k, val in rep["counters"].items() if not k.startswith("violations[")}
        counters["monitored_executions[%s]" % check] = rep["evaluations"]
        rep["counters"] = counters
        rep["violations"] = keep
        rep["violation_count"] = len(keep)
        rep["samples"] = []
        rep["notes"] = []
        rep["outcomes"] = []
        return rep
    return part


SCHED_ASSUME = COMMON_ASSUME + [
    "atomic blocks are the code between two intercepted operations (task start/exit, shim mutex lock, record taken, "
    "every scc map operation, shim atomics); races inside one block and memory orderings weaker than sequential "
    "consistency are not modelled",
    "rayon's internal work distribution is not scheduled (tasks are identified by registration or by their chunk); "
    "every exploration first replays one schedule twice and requires identical event logs",
]
SCHED_STATES = (["sched.branching_points", "sched.schedules"], ["sched.choice_points"], ["sched.schedules"])

PROPS.update({
    "C05": {
        "engine": "ktmc-sched",
        "technique": "stateless controlled-scheduler exploration of worker interleavings (iterative preemption bounding) plus exhaustive configuration lattice",
        "needs": ["harness", "cli"],
        "parts": [ktmc("C05sched"), ktmc("C05cfg"), ktmc("C04batch"), lambda tier: __import__("hist").c_env_threads(tier, ["oligo"]), lambda tier: __import__("hist").c_env_cpus(tier, ['oligo']), lambda tier: __import__("hist").c_sink_fifo(tier, ['oligo-c']), lambda tier: __import__("hist").c_source_fifo(tier, ['oligo-c']), lambda tier: __import__("hist").c_giant_record_in_the_middle(tier, ["oligo-c"])],
        "rule": "schedules: depth-first exploration by re-execution of every interleaving of the real mmap worker loop "
                "(N=2 and the small N=3 case unbounded, larger N=3 and N=4 up to the stated preemption bound) over 2-6 "
                "records with pairwise different rows, at the default and at small batch-memory limits; oracle per schedule: output bytes = rows in input order; observed record->worker assignments "
                "are listed (non-vacuity). configurations: record sets (incl. one very long record followed by "
                "short ones) x threads 1..=16 x batch limits x both writers x 7 containers (x header x "
                "delimiters), and every record count 0..=40, 63..65, 127, 129 x threads 1..=8, 16: row i = record i. "
                "states = branching decision points + terminal states, transitions = scheduling steps executed, "
                "traces = complete schedules executed on the real code. Every schedule/configuration is distinct. Usable CPUs as an environment dimension: the command line under `taskset` with 1, 2, 3 and 6 usable CPUs (thorough: every count below the machine's) x -t in (0,1,2,3,4,8,16) x 3, 16 and 37 records; oracle: the result of the unrestricted one-thread run. More than 2^16 records (one longer record, then 65 600 short ones) with 2 workers (thorough: also 3): every way of preempting the workers within the first 16 (thorough 40) decisions at bound 1, each continued by default, so that a preempted worker resumes after the others have taken every remaining record. Output as a FIFO with a slow reader (8 threads, 9 MB of long lines; free-running, one execution per kind, thorough three): same canonical content as the one-thread run into a regular file. Byte identity: the first configuration of a (record set, k, header, delimiter) seen by a process is the byte reference of all later ones (writers, threads, limits, containers); record sets with decimal-tie frequencies and with 41 MB of text in one batch; delimiters with multi-byte characters; mismatching .fai/.gzi side-cars next to every input. One record of 2^28 + 5 bases between two short ones through the batched writer on the command line: rows in input order. FIFO inputs for the batched writer.",
        "states": SCHED_STATES,
        "assumptions": SCHED_ASSUME + ["batches with more items than pool threads run free (which items start first is then rayon's choice); tasks that do not announce themselves (a bare scope.spawn) are not scheduled"],
    },
    "C14": {
        "engine": "ktmc-sched",
        "technique": "write-log invariant checked on every explored worker interleaving and on an exhaustive configuration lattice; debug-assertion build as bounds monitor",
        "parts": [ktmc("C14"), bounds_monitor("C08"), bounds_monitor("C04"), bounds_monitor("C12"), bounds_monitor("C07cfg"), lambda tier: __import__("hist").c_first_calls(tier)],
        "rule": "every write (offset, length, capacity) issued to the mapped file is logged (hook in MMWriter::write_at, "
                "which refuses an out-of-range write before it happens) on every schedule of the C05 exploration "
                "(with a 2-byte delimiter on the header cases) and on a lattice k x 6 delimiters of length 0,1,2,4 x "
                "header x 0..=3 records x workers (1,2,3,16); invariant: in range, pairwise disjoint, union = whole "
                "file, file size = header + records x row, no NUL byte. Unchecked indices: all enumerations of C04, "
                "C07, C08, C12 run the /repo crates with debug assertions, where a violated get_unchecked "
                "precondition aborts the shard and is reported with the journalled case. Index maps of different k built by 8 threads at once as the first calls of a fresh process (60 processes, free-running); half of the lattice cases whose records all have bases arrive as FASTQ wrapped at 3.",
        "states": SCHED_STATES,
        "assumptions": SCHED_ASSUME,
    },
    "C07": {
        "engine": "ktmc-sched",
        "technique": "stateless controlled-scheduler exploration of count/merge worker interleavings with phase-barrier state caching, plus exhaustive configuration enumeration",
        "needs": ["harness", "cli"],
        "parts": [ktmc("C07sched"), ktmc("C07cfg"), lambda tier: __import__("hist").c_env_threads(tier, ["ctr"]), lambda tier: __import__("hist").c_env_cpus(tier, ['ctr']), lambda tier: __import__("hist").c_env_nofile(tier)],
        "rule": "schedules: every interleaving (up to the stated preemption bound) of the real count() workers - limit "
                "check, reader mutex, record taken, every map operation, atomic additions, exit - for 2-3 workers and "
                "2-4 records colliding on the same k-mers (same strand and opposite strands, with records that hold "
                "no k-mer in between) under base limits 0, 4 and unlimited; merge() workers "
                "explored once per distinct on-disk state between the phases and one partition at a time; oracle per "
                "schedule: kmers.counts as a multiset of lines = model counts, one line per k-mer, temp files "
                "present/absent as asked; observed (chunks, partitions, records per chunk) outcomes are listed. "
                "configurations: every single record over {A,C,G,T,N}^(<=4) and every pair over two alphabets holding "
                "both strands (thorough: more alphabets and triples) x k x 8 (threads, ceiling) settings (1 to 14 "
                "chunks, 1 to 700 partitions, one to 16 workers), ACGT and numeric rendering, repetitive inputs for "
                "k 15, 31. Usable CPUs as an environment dimension: the command line under `taskset` with 1, 2, 3 and 6 usable CPUs (thorough: every count below the machine's) x -t in (0,1,2,3,4,8,16) x 3, 16 and 37 records; oracle: the result of the unrestricted one-thread run. More than 2^16 records (one longer record, then 65 600 short ones) with 2 workers (thorough: also 3): every way of preempting the workers within the first 16 (thorough 40) decisions at bound 1, each continued by default, so that a preempted worker resumes after the others have taken every remaining record. Every number of distinct 21-mers 1..=1500 (thorough 50 000) in one record, both renderings. Equal records 2^8 and 2^16 (one less, one more) records apart. Open-file limits 24..1024 (RLIMIT_NOFILE) against hundreds of chunk files: status 0 implies the exact table. One case with a grid of about 10^5 temporary files.",
        "states": SCHED_STATES,
        "assumptions": SCHED_ASSUME + ["merge scheduling is explored when chunks <= pool threads (otherwise which chunk tasks start first is rayon's choice and the phase runs free)",
                                       "configuration runs use free-running threads"],
    },
    "C10": {
        "engine": "ktmc-sched",
        "technique": "stateless controlled-scheduler exploration of the s2m / m2s worker interleavings plus exhaustive configuration enumeration",
        "needs": ["harness", "cli"],
        "parts": [ktmc("C10sched"), ktmc("C10many"), ktmc("C10cfg"), lambda tier: __import__("hist").c_env_cpus(tier, ['s2m', 'm2s']), lambda tier: __import__("hist").c_sink_fifo(tier, ['s2m', 'm2s']), lambda tier: __import__("hist").c_source_fifo(tier, ['s2m', 'm2s', 's2m-w0'])],
        "rule": "schedules: every interleaving (N=2 unbounded where feasible, N=3 preemption-bounded) of seq_to_min and "
                "bin_sequences workers over 2-3 records sharing minimisers (m=2, w=0 and w=3); oracle per schedule: "
                "s2m = one line per record with the model's runs (multiset of lines), m2s = exact inversion of the "
                "model's s2m (multiset per minimiser), w=0 means the whole record. configurations: all strings over "
                "{A,C,G,T,N} up to length 5 (thorough 6) as one file x m 1..=3 x w in (0,m+1,m+2) x threads "
                "(1,2,4,16), and every list of 2 (thorough 3) short records x 5 settings. Usable CPUs as an environment dimension: the command line under `taskset` with 1, 2, 3 and 6 usable CPUs (thorough: every count below the machine's) x -t in (0,1,2,3,4,8,16) x 3, 16 and 37 records; oracle: the result of the unrestricted one-thread run. More than 2^16 records (one longer record, then 65 600 short ones) with 2 workers: every way of preempting the workers within the first 16 decisions at bound 1, each continued by default, so that a preempted worker resumes after the others have taken every remaining record. Output as a FIFO with a slow reader (8 threads, 9 MB of long lines; free-running, one execution per kind, thorough three): same canonical content as the one-thread run into a regular file. FIFO inputs (both listings, w = 0 too).",
        "states": SCHED_STATES,
        "assumptions": SCHED_ASSUME + ["configuration runs use free-running threads"],
    },
})


def hist_part(name):
    def part(tier):
        import hist
        return getattr(hist, name)(tier)
    return part


HIST_ASSUME = [
    "the kmertools release binary and the pykmertools module are rebuilt from /repo's working tree with the guard off by every check",
    "library results come from `ktmc lib` (the /repo crates called through their public setters)",
    "reference models in /verif/py/pymodel.py are correct (independent of /repo and of the Rust models)",
]

PROPS.update({
    "C15": {
        "engine": "hist",
        "needs": ["harness", "cli"],
        "technique": "exhaustive enumeration of a bounded option lattice at process level with differential (CLI vs library) and metamorphic oracles",
        "parts": [hist_part("c15")],
        "rule": "complete cross product of a bounded option lattice on the release binary: oligo k x preset x -c x -H x "
                "-t (0,1,2,16) x source (fa, fq, fa.gz, stdin) on 3 inputs; cgr / k-mer cgr / cov / min / ctr "
                "lattices over their options in range; every value just outside each documented range (with a "
                "fresh and with a pre-existing output). Oracles: refusal = non-zero exit or diagnostic, output "
                "absent/unchanged; otherwise CLI result = library result for the same settings (bytes, or multisets "
                "of lines where order is unspecified), presets differ only by delimiter, -H adds one line, --acgt "
                "only changes rendering, values agree with the model. Every lattice point is distinct.",
        "assumptions": HIST_ASSUME,
    },
})

PROPS.update({
    "C13": {
        "engine": "hist",
        "needs": ["harness", "py"],
        "technique": "bounded-exhaustive differential enumeration: Python binding vs the core crates on every enumerated input",
        "parts": [hist_part("c13")],
        "rule": "the freshly built extension module is driven in child interpreters over the same enumerated spaces as "
                "the core checks: k-mer iterator on every string over {A,C,G,T,N,u,g} up to length 5 (thorough 6) x k "
                "1..=6 and long inputs for k 15, 30, 31; minimiser iterator on every string over {A,C,G,T,N} up to "
                "length 6 (7) x all pairs m<=w<=4 and long inputs; oligo vector (bit-exact floats) and header; CGR "
                "values and ValueError on every bad-byte string; unicode strings over {A,c,N,e-acute,Omega,G-clef} up "
                "to length 4 and every code point of the Basic Multilingual Plane (plus a stride through the astral "
                "planes) alone and inside a clean context; batch calls of every size 0..=64, 1000, 4096 under 4 pool sizes; iterators drained "
                "after their source string was released and the heap churned. Oracle: what the core crates compute "
                "on the same bytes (expectation file from ktmc). Non-trivial = non-empty expected result. One batch per shape (many small / medium / few large records) whose sequences add up to more than 2^28 bases (thorough: also more than 2^32); oracle: vectorise_one of each record, in argument order. Python threads sharing one CgrComputer / OligoComputer (valid batches next to refused ones; free-running repetition).",
        "assumptions": HIST_ASSUME + ["rayon's schedule inside the extension's batch calls is not controlled (closure is pure; ordered collect trusted)"],
    },
})

PROPS.update({
    "C16": {
        "engine": "hist",
        "needs": ["harness", "cli"],
        "technique": "exhaustive enumeration of degenerate record lists x subcommands at process level against the reference models",
        "parts": [hist_part("c16")],
        "rule": "every list of 0..=2 (thorough 0..=3) records over a dozen boundary shapes (empty, 1 base, k-1, k, k+1 / w-1, w, "
                "k-1 or w-1 bases closed by N, all-N, N first / middle / last, ordinary) x 11 subcommand variants (oligo mmap / counts / stdin, cgr, "
                "k-mer cgr, cov, min s2m and m2s with w=0 and w>m, ctr) x threads (1,4) on the release binary; oracle: "
                "exit 0 within 20 s (whole-sequence CGR may refuse non-nucleotide records), exactly one row per "
                "record equal to the model's (all-zero / id only where nothing is computable), no placeholder "
                "rendered. Every case is a distinct (variant, list, threads) triple. A quarter of the cases (by content) run with stderr on a pseudo-terminal; lists without empty records also as FASTQ (one line per part, and wrapped at 3 with quality lines starting with @ and +); a third with index side-cars next to the input.",
        "assumptions": HIST_ASSUME,
    },
    "C17": {
        "engine": "hist",
        "needs": ["harness", "cli"],
        "technique": "explicit-state breadth-first search over on-disk states with the real subcommands as the transition function",
        "parts": [hist_part("c17"), hist_part("c17_devices"), hist_part("c17_interrupted"), hist_part("c17_near_inputs")],
        "rule": "states = canonical content of the shared output location; transitions = real runs from an alphabet of "
                "4-8 runs per output kind (different inputs, k, threads, writer paths, memory ceilings that leave "
                "temp files of larger chunk x partition grids); search from the empty location and from a location "
                "pre-filled with longer garbage, to a fixpoint or depth 3 (thorough 4; the counter/coverage directory one level less); invariant on every transition: "
                "documented result files = the same run alone in a fresh location (bytes for ordered outputs, line "
                "multisets for unordered ones); the same run twice is part of every state's fan-out. File identity across file systems (private mount namespace, two fresh tmpfs mounts): for 8 subcommand variants the stale output lies on another file system with the input's inode number (the -o path, and the result file inside a directory output), on another file system with another number, or on the input's own; oracle: same canonical content as a fresh location. Interrupted earlier runs: a 300-record run cut off by RLIMIT_FSIZE = L for every L of a ladder 0..1 MiB (thorough 64 B..4 MiB, quarter-octave steps), then a complete 3-record run into the same location, 9 command variants; oracle: the documented result files of a fresh location. Histories over closely related inputs (ids exchanged, one base substituted, records exchanged, case changed, one record fewer at the same file size), in both orders and with the input regenerated in place under one path, 9 commands.",
        "states": (["hist.states"], ["hist.transitions"], ["hist.traces"]),
        "assumptions": HIST_ASSUME + ["state canonicalisation hashes unordered files as sorted line multisets: later runs truncate or rewrite them before reading, so line order cannot influence the future"],
    },
})


def replay_py(body, path):
    """python-level counterexamples are replayed by re-running the property's quick check"""
    rc = fe.decide(body["property"], "quick")
    return rc
NOT_APPLICABLE = {}
