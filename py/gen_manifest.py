#!/usr/bin/env python3
"""Regenerates /verif/MANIFEST.json from the registry in props.py (run after adding a check)."""
import json, os, subprocess, sys
sys.path.insert(0, os.path.dirname(os.path.abspath(__file__)))
import props

ALL = ["C%02d" % i for i in range(1, 19)]
hooks = subprocess.run(["git", "-C", "/repo", "log", "--format=%H %s"], stdout=subprocess.PIPE).stdout.decode().splitlines()
hook_commits = [l.split()[0] for l in hooks if "verif hooks" in l]
checks = []
for pid in ALL:
    spec = props.PROPS.get(pid)
    if not spec or spec.get("disabled"):
        continue
    checks.append({
        "property_id": pid,
        "quick_cmd": "./check %s quick" % pid,
        "thorough_cmd": "./check %s thorough" % pid,
        "evidence_file": "/verif/evidence/%s.json" % pid,
        "replay_cmd_template": "./check --replay {path}",
        "engine": spec.get("engine", "ktmc-enum"),
        "level_claimed": {"category": "model_checking", "text": spec.get("level_text", spec["rule"]),
                          "design_ref": spec.get("design_ref", "DESIGN.md section 5, " + pid)},
        "level_note": " ; ".join(spec.get("assumptions", [])),
        "technique": spec.get("technique", "bounded-exhaustive enumeration of inputs against a reference model"),
    })
na = [{"property_id": pid, "reason": props.NOT_APPLICABLE.get(pid, "check not built yet in this round (planned, see DESIGN.md section 5)")}
      for pid in ALL if pid not in [c["property_id"] for c in checks]]
manifest = {
    "version": 1,
    "setup_cmd": "./check setup",
    "hooks": {
        "guard": "--cfg kmertools_verif",
        "enable": "RUSTFLAGS=\"--cfg kmertools_verif\" via /verif/harness/.cargo/config.toml (harness links /repo crates by path); CLI and Python module are built with the guard off",
        "baseline_off_cmd": "cd /repo && cargo test --workspace --no-fail-fast --offline",
        "source_commits": hook_commits,
        "add_only": True,
    },
    "engines": [
        {"name": "ktmc-enum", "path": "/verif/harness/src", "serves_properties": [c["property_id"] for c in checks if c["engine"] == "ktmc-enum"],
         "kind_free_text": "bounded-exhaustive enumeration of inputs/configurations of the real code against reference models (small scope, transition cover of the reference machine, structured families)"},
        {"name": "ktmc-sched", "path": "/verif/harness/src/sched.rs", "serves_properties": [c["property_id"] for c in checks if c["engine"] == "ktmc-sched"],
         "kind_free_text": "stateless controlled-scheduler exploration (CHESS-style, iterative preemption bounding) of the real rayon worker loops through cfg-gated hooks"},
        {"name": "hist", "path": "/verif/py", "serves_properties": [c["property_id"] for c in checks if c["engine"] == "hist"],
         "kind_free_text": "process-level exhaustive lattices and explicit-state search over on-disk states with the real subcommands as the transition function"},
    ],
    "checks": checks,
    "not_applicable": na,
    "notes": "exit 0 = held, 1 = VIOLATION line, 2 = machinery failure (never a verdict). Findings: /verif/known_findings.txt.",
}
json.dump(manifest, open("/verif/MANIFEST.json", "w"), indent=1)
print("checks:", [c["property_id"] for c in checks], "not_applicable:", [n["property_id"] for n in na])
