#!/usr/bin/env python3
"""Apply each behaviour-preserving change (refactored/<id>/patch.diff) to /repo, run EVERY quick check, undo the change.
A check that exits non-zero or prints VIOLATION on such a change is a false alarm (or the change is not
behaviour-preserving after all - to be decided by replaying the reported case). Usage: refactest.py [dirs..] [--checks=C01,..]"""
import json, os, subprocess, sys, time
VERIF = os.path.dirname(os.path.dirname(os.path.abspath(__file__)))
REPO = os.environ.get("KTMC_REPO", "/repo")  # an isolated copy when run through `vp run --with-repo`
args = [a for a in sys.argv[1:] if not a.startswith("--")]
extra = [a.split("=", 1)[1].split(",") for a in sys.argv[1:] if a.startswith("--checks=")]
dirs = [os.path.abspath(a) for a in args] or sorted(os.path.join(VERIF, "refactored", d) for d in os.listdir(os.path.join(VERIF, "refactored")))
ALL = ["C%02d" % i for i in range(1, 19)]
assert subprocess.run(["git", "-C", REPO, "status", "--porcelain"], stdout=subprocess.PIPE).stdout.strip() == b"", "/repo not clean"
for sd in dirs:
    meta = json.load(open(os.path.join(sd, "meta.json")))
    subprocess.run(["git", "-C", REPO, "apply", os.path.join(sd, "patch.diff")], check=True)
    res, saved = {}, {}
    try:
        for p in (extra[0] if extra else ALL):
            ev = os.path.join(VERIF, "evidence", p + ".json")
            saved[ev] = open(ev, "rb").read() if os.path.exists(ev) else None
            t0 = time.time()
            r = subprocess.run([os.path.join(VERIF, "check"), p, "quick"], cwd=VERIF, stdout=subprocess.PIPE, stderr=subprocess.STDOUT)
            out = r.stdout.decode("utf-8", "replace")
            viol = [l for l in out.splitlines() if l.startswith("VIOLATION") or l.startswith("  [") or "MACHINERY" in l]
            res[p] = {"exit": r.returncode, "wall_s": round(time.time() - t0, 1), "lines": [l[:600] for l in viol[:6]]}
            if r.returncode != 0:
                print(os.path.basename(sd), p, "exit", r.returncode, (viol[1][:300] if len(viol) > 1 else out[-400:].strip()))
    finally:
        subprocess.run(["git", "-C", REPO, "checkout", "--", "."], check=True)
        for ev, data in saved.items():
            if data is None:
                if os.path.exists(ev):
                    os.remove(ev)
            else:
                open(ev, "wb").write(data)
    meta["checked_with_quick"] = res
    meta["silent"] = all(v["exit"] == 0 for v in res.values())
    json.dump(meta, open(os.path.join(sd, "meta.json"), "w"), indent=1)
    print(os.path.basename(sd), "silent" if meta["silent"] else "ALARMS: " + ",".join(p for p, v in res.items() if v["exit"] != 0))
