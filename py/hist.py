"""Process-level engine: exhaustive option lattices (C15), degenerate inputs (C16), on-disk state search (C17),
and the CLI / Python observation points of other properties."""
import concurrent.futures as cf
import gzip
import hashlib
import itertools
import os
import shutil
import subprocess
import threading

import frontend as fe
import pymodel as pm

TIMEOUT = 20


class Rep:
    def __init__(self):
        self.d = fe.empty_report()
        self.lock = threading.Lock()
        self.outcomes = set()

    def ev(self, n=1, nontrivial=0):
        with self.lock:
            self.d["evaluations"] += n
            self.d["nontrivial"] += nontrivial

    def count(self, name, by=1):
        with self.lock:
            self.d["counters"][name] = self.d["counters"].get(name, 0) + by

    def sample(self, s):
        with self.lock:
            if len(self.d["samples"]) < 6 and s not in self.d["samples"]:
                self.d["samples"].append(s)

    def note(self, s):
        self.d["notes"].append(s)

    def outcome(self, s):
        with self.lock:
            self.outcomes.add(s)

    def violation(self, key, size, desc, fn, args):
        with self.lock:
            self.d["violation_count"] += 1
            k = "violations[%s]" % key
            self.d["counters"][k] = self.d["counters"].get(k, 0) + 1
            if len(self.d["violations"]) < 200:
                self.d["violations"].append({"key": key, "size": size, "desc": desc[:3000], "runner": "py",
                                             "argv": {"fn": fn, "args": args}})

    def done(self):
        self.d["outcomes"] = sorted(self.outcomes)
        self.d["violations"].sort(key=lambda v: v["size"])
        self.d["violations"] = self.d["violations"][:12]
        return self.d


def pmap(fn, items, workers=None):
    items = list(items)
    with cf.ThreadPoolExecutor(max_workers=workers or fe.NCPU) as ex:
        return list(ex.map(fn, items))


def run(cmd, stdin=None, timeout=TIMEOUT, env=None, cwd=None, stdin_file=None, _second=False):
    """returns (rc, stdout, stderr, timed_out)"""
    e = dict(os.environ)
    e.pop("RUST_BACKTRACE", None)
    if env:
        e.update(env)
    try:
        if stdin_file is not None:
            with open(stdin_file, "rb") as fh:
                p = subprocess.run(cmd, stdin=fh, stdout=subprocess.PIPE, stderr=subprocess.PIPE, timeout=timeout, env=e, cwd=cwd)
        else:
            p = subprocess.run(cmd, input=stdin, stdout=subprocess.PIPE, stderr=subprocess.PIPE, timeout=timeout, env=e, cwd=cwd)
        return p.returncode, p.stdout, p.stderr, False
    except subprocess.TimeoutExpired as ex:
        if timeout is not None and timeout < 200 and not _second:
            # whether a run "does not end" must not depend on how busy the machine is: once more, with ten times the limit
            return run(cmd, stdin=stdin, timeout=10 * timeout, env=env, cwd=cwd, stdin_file=stdin_file, _second=True)
        return -9, ex.stdout or b"", ex.stderr or b"", True


def run_on_tty(cmd, stdin=None, timeout=TIMEOUT, env=None, cwd=None):
    """like run(), with the standard error stream attached to a terminal (80 x 24 pseudo-terminal): progress bars
    and messages are then really drawn. Returns what was written to the terminal as the stderr text."""
    import fcntl
    import pty
    import struct
    import termios
    e = dict(os.environ)
    e.pop("RUST_BACKTRACE", None)
    e["TERM"] = "xterm"
    if env:
        e.update(env)
    master, slave = pty.openpty()
    fcntl.ioctl(slave, termios.TIOCSWINSZ, struct.pack("HHHH", 24, 80, 0, 0))
    chunks = []

    def drain():
        while True:
            try:
                b = os.read(master, 65536)
            except OSError:
                return
            if not b:
                return
            chunks.append(b)

    th = threading.Thread(target=drain, daemon=True)
    th.start()
    timed_out = False
    try:
        p = subprocess.Popen(cmd, stdin=subprocess.PIPE if stdin is not None else subprocess.DEVNULL, stdout=subprocess.PIPE, stderr=slave, env=e, cwd=cwd)
        os.close(slave)
        try:
            so, _ = p.communicate(stdin, timeout=timeout)
        except subprocess.TimeoutExpired:
            p.kill()
            so, _ = p.communicate()
            timed_out = True
        rc = p.returncode
    finally:
        th.join(2)
        try:
            os.close(master)
        except OSError:
            pass
    return (-9 if timed_out else rc), so or b"", b"".join(chunks), timed_out


def cli(args, stdin=None, timeout=TIMEOUT, env=None, cwd=None, stdin_file=None, tty=False):
    if tty:
        return run_on_tty([fe.CLI] + args, stdin=stdin, timeout=timeout, env=env, cwd=cwd)
    return run([fe.CLI] + args, stdin=stdin, timeout=timeout, env=env, cwd=cwd, stdin_file=stdin_file)


def lib(kind, timeout=60, **kw):
    return run([fe.KTMC, "lib", kind] + ["%s=%s" % (k, v) for k, v in kw.items()], timeout=timeout,
               env={"KTMC_SCRATCH": fe.scratch_base()})


_dir_lock = threading.Lock()
_dir_counter = [0]


def fresh_dir(tag="w"):
    with _dir_lock:
        _dir_counter[0] += 1
        n = _dir_counter[0]
    d = os.path.join(fe.scratch_base(), "%s%d" % (tag, n))
    os.makedirs(d)
    return d


def read(path):
    try:
        with open(path, "rb") as f:
            return f.read()
    except OSError:
        return None


# ------------------------------------------------------------------------------------------------ inputs

def lcg_records(n, seed, minlen, maxlen, with_n):
    x = seed
    recs = []
    for i in range(n):
        x = (x * 6364136223846793005 + 1442695040888963407) % (1 << 64)
        ln = minlen + (x >> 33) % (maxlen - minlen + 1)
        s = bytearray()
        for j in range(ln):
            x = (x * 6364136223846793005 + 1442695040888963407) % (1 << 64)
            r = (x >> 35) % 100
            if with_n and r < 3:
                s.append(ord("N"))
            else:
                s.append(b"ACGT"[(x >> 40) % 4])
        recs.append(bytes(s))
    return recs


def write_inputs(d, name, recs, ids=None):
    """writes name.fa, name.fq, name.fa.gz, name.fq.gz; returns dict of paths"""
    ids = ids or [b"r%d" % i for i in range(len(recs))]
    fa = b"".join(b">%s desc %d\n%s\n" % (ids[i], i, r) for i, r in enumerate(recs))
    # quality lines may legally start with '@' or '+'
    fq = b"".join(b"@%s desc\n%s\n+\n%s\n" % (ids[i], r, (b"@+I>"[i % 4:i % 4 + 1] + b"I" * len(r))[:len(r)]) for i, r in enumerate(recs))
    paths = {}
    for suffix, data in ((".fa", fa), (".fq", fq)):
        p = os.path.join(d, name + suffix)
        open(p, "wb").write(data)
        paths[suffix[1:]] = p
        pz = p + ".gz"
        # two gzip members, the boundary inside a record (what bgzip, `cat a.gz b.gz` or `gzip -c >> f.gz` produce)
        cut = (2 * len(data)) // 3 + 1
        open(pz, "wb").write(gzip.compress(data[:cut]) + gzip.compress(data[cut:]))
        paths[suffix[1:] + ".gz"] = pz
    paths["fa_bytes"] = fa
    for key in ("fa", "fq", "fa.gz", "fq.gz"):
        side_cars(paths[key])
    return paths


def side_cars(path):
    """files that tools of the trade leave next to a sequence file (samtools faidx / bgzip indexes), describing another
    version of it and not older than it: nothing a run computes may come from them"""
    with open(path + ".fai", "wb") as f:
        f.write(b"r0\t17\t4\t17\t18\nzz\t5\t30\t5\t6\n")
    with open(path + ".gzi", "wb") as f:
        f.write(b"\x01\x00\x00\x00\x00\x00\x00\x00" + b"\x10\x00\x00\x00\x00\x00\x00\x00" * 2)


def refusal(rc, err, timed_out):
    """a refusal is a non-zero exit or a diagnostic on stderr (clap errors, 'Error:', panics)"""
    return (not timed_out) and (rc != 0 or len(err.strip()) > 0)


def has_progress_only(err):
    # indicatif writes progress bars to stderr only when it is a terminal; with a pipe stderr stays empty
    return len(err.strip()) == 0


def lines_of(b):
    if b is None:
        return None
    t = b.split(b"\n")
    if t and t[-1] == b"":
        t.pop()
    return t


# ------------------------------------------------------------------------------------------------ C15

PRESET_DELIM = {"csv": b",", "tsv": b"\t", "spc": b" "}


def c15_oligo(rep, d, inputs, tier):
    """oligo: k x preset x -c x -H x -t x source; CLI == library for the same settings; metamorphic relations"""
    cases = []
    libres = {}
    for name, (paths, recs) in inputs.items():
        if name == "nb":
            # the long near-equal-share records: one setting, file and standard input (the two writers), one and four threads
            for counts in (0, 1):
                libres[(name, 3, "spc", counts, 0)] = None
                for t in (1, 4):
                    for src in ("fa", "fq", "stdin"):
                        cases.append((name, 3, "spc", counts, 0, t, src))
            continue
        for k in (3, 5, 7) if (tier == "thorough" or name == "in5") else (3, 5):
            for preset in ("csv", "tsv", "spc"):
                for counts in (0, 1):
                    for header in (0, 1):
                        libres[(name, k, preset, counts, header)] = None
                        for t in (0, 1, 2, 16):
                            for src in ("fa", "fq", "fa.gz", "fq.gz", "stdin"):
                                cases.append((name, k, preset, counts, header, t, src))
                        if name == "in37" and preset == "spc":
                            # far more threads than cores and than records
                            cases.append((name, k, preset, counts, header, 64, "fa"))
                            cases.append((name, k, preset, counts, header, 200, "stdin"))

    def do_lib(key):
        name, k, preset, counts, header = key
        out = os.path.join(fresh_dir("lib"), "o.txt")
        rc, _, err, to = lib("oligo", **{"in": inputs[name][0]["fa"], "out": out, "k": k, "preset": preset,
                                         "counts": counts, "header": header, "threads": 1})
        return key, (rc, read(out), err)

    for key, val in pmap(do_lib, list(libres.keys())):
        libres[key] = val
        rep.ev(1, 1)
        if val[0] != 0 or val[1] is None:
            rep.violation("library-run-failed", 1, "library oligo run %r failed: rc=%s %s" % (key, val[0], val[2][-300:]),
                          "c15_oligo_lib", {"key": list(key)})

    # relations among library results + model
    for (name, k, preset, counts, header), (rc, data, _) in libres.items():
        if data is None:
            continue
        recs = inputs[name][1]
        ls = lines_of(data)
        delim = PRESET_DELIM[preset]
        names = [n.encode() for n in pm.header_names(k)]
        rows = ls[1:] if header else ls
        rep.ev(1, 1)
        args = {"name": name, "k": k, "preset": preset, "counts": counts, "header": header}
        if header and (not ls or ls[0].split(delim) != names):
            rep.violation("header-line", k, "oligo %r: first line is not the column k-mers joined by the delimiter" % (args,), "c15_oligo_rel", args)
            continue
        if len(rows) != len(recs):
            rep.violation("row-count", k, "oligo %r: %d rows for %d records" % (args, len(rows), len(recs)), "c15_oligo_rel", args)
            continue
        bad = None
        for i, (row, r) in enumerate(zip(rows, recs)):
            toks = row.split(delim)
            v, t = pm.oligo(r, k)
            if len(toks) != len(v):
                bad = "row %d has %d values, expected %d" % (i, len(toks), len(v))
                break
            for c, tok in enumerate(toks):
                try:
                    val = float(tok)
                except ValueError:
                    bad = "row %d token %r" % (i, tok)
                    break
                ok = (val == v[c]) if counts else pm.close(val, v[c], t)
                if not ok:
                    bad = "row %d column %d = %r, model %d/%d (counts=%d)" % (i, c, tok, v[c], t, counts)
                    break
            if bad:
                break
        if bad:
            rep.violation("value-vs-model", k, "oligo %r: %s" % (args, bad), "c15_oligo_rel", args)
        # preset relation: same tokens as the spc result
        other = libres.get((name, k, "spc", counts, header))
        if other and other[1] is not None and data.replace(delim, b" ") != other[1]:
            rep.violation("preset-changes-more-than-delimiter", k, "oligo %r: output differs from the spc output by more than the delimiter" % (args,), "c15_oligo_rel", args)
        # header relation
        if header:
            nh = libres.get((name, k, preset, counts, 0))
            if nh and nh[1] is not None and data != delim.join(names) + b"\n" + nh[1]:
                rep.violation("header-changes-rows", k, "oligo %r: -H output is not the header line followed by the output without -H" % (args,), "c15_oligo_rel", args)

    def do_cli(case):
        name, k, preset, counts, header, t, src = case
        paths = inputs[name][0]
        out = os.path.join(fresh_dir("cli"), "o.txt")
        args = ["comp", "oligo", "-o", out, "-k", str(k), "-p", preset, "-t", str(t)]
        if counts:
            args.append("-c")
        if header:
            args.append("-H")
        stdin = None
        if src == "stdin":
            args += ["-i", "-"]
            stdin = paths["fa_bytes"]
        else:
            args += ["-i", paths[src]]
        rc, so, err, to = cli(args, stdin=stdin)
        rep.ev(1, 1)
        want = libres[(name, k, preset, counts, header)][1]
        got = read(out)
        a = {"name": name, "k": k, "preset": preset, "counts": counts, "header": header, "t": t, "src": src}
        if to:
            rep.violation("timeout", k, "kmertools %s: no exit within %ds" % (" ".join(args), TIMEOUT), "c15_oligo_cli", a)
        elif rc != 0:
            rep.violation("accepted-options-failed", k, "kmertools %s: exit %d, stderr %r" % (" ".join(args), rc, err[-300:]), "c15_oligo_cli", a)
        elif got != want:
            rep.violation("cli-differs-from-library", k, "kmertools %s: output (%s bytes) differs from the library result for the same settings (%s bytes)" % (
                " ".join(args), None if got is None else len(got), None if want is None else len(want)), "c15_oligo_cli", a)
        shutil.rmtree(os.path.dirname(out), ignore_errors=True)

    pmap(do_cli, cases)
    rep.count("c15.oligo_cli_runs", len(cases))
    rep.sample("kmertools comp oligo -i in5.fq -o o.txt -k 5 -p tsv -c -H -t 16  == library(k=5, tab, counts, header)")


def c15_refusals(rep, d, inputs):
    """values just outside the documented ranges must be refused with a diagnostic and without producing output"""
    fa = inputs["in5"][0]["fa"]
    clean = inputs["in2"][0]["fa"]
    probes = [
        (["comp", "oligo", "-i", fa, "-k", "2"], "file"), (["comp", "oligo", "-i", fa, "-k", "8"], "file"),
        (["comp", "oligo", "-i", fa, "-k", "0"], "file"), (["comp", "oligo", "-i", fa, "-p", "xyz"], "file"),
        (["comp", "cgr", "-i", clean, "-k", "2"], "file"), (["comp", "cgr", "-i", clean, "-k", "8"], "file"),
        (["comp", "cgr", "-i", clean, "-c"], "file"),
        (["cov", "-i", fa, "-k", "6"], "dir"), (["cov", "-i", fa, "-k", "32"], "dir"),
        (["cov", "-i", fa, "-s", "4"], "dir"), (["cov", "-i", fa, "-c", "4"], "dir"),
        (["cov", "-i", fa, "-m", "5"], "dir"), (["cov", "-i", fa, "-m", "129"], "dir"),
        (["min", "-i", fa, "-m", "6"], "file"), (["min", "-i", fa, "-m", "29"], "file"),
        (["min", "-i", fa, "-m", "10", "-w", "10"], "file"), (["min", "-i", fa, "-m", "10", "-w", "9"], "file"),
        (["min", "-i", fa, "-m", "10", "-w", "1"], "file"), (["min", "-i", fa, "-m", "28", "-w", "28"], "file"),
        (["min", "-i", fa, "-p", "m2s", "-m", "7", "-w", "7"], "file"),
        (["ctr", "-i", fa, "-k", "9"], "dir"), (["ctr", "-i", fa, "-k", "32"], "dir"),
        (["ctr", "-i", fa, "-k", "21", "-m", "5"], "dir"), (["ctr", "-i", fa, "-k", "21", "-m", "129"], "dir"),
        (["ctr", "-i", fa], "dir"),
    ]
    # values that would fall into the range if they were narrowed to 8, 16 or 32 bits on the way, negative and
    # non-integer values, and zero where the range starts above it
    for base, opt, lo in ((["comp", "oligo", "-i", fa], "-k", 3), (["comp", "cgr", "-i", clean], "-k", 3), (["cov", "-i", fa], "-k", 7),
                          (["cov", "-i", fa], "-m", 6), (["min", "-i", fa], "-m", 7), (["ctr", "-i", fa], "-k", 10), (["ctr", "-i", fa, "-k", "21"], "-m", 6)):
        kind = "dir" if base[0] in ("cov", "ctr") else "file"
        for v in (lo + 256, lo + 65536, lo + (1 << 32), lo + (1 << 64), -lo, "%d.0" % lo, "0x%x" % lo, ""):
            probes.append((base + [opt, str(v)] if not str(v).startswith("-") else base + ["%s=%s" % (opt, v)], kind))
    for base, opt in ((["cov", "-i", fa], "-s"), (["cov", "-i", fa], "-c")):
        for v in (0, -5, 5 + (1 << 64), "5.5"):
            probes.append((base + ["%s=%s" % (opt, v)], "dir"))
    for base in (["comp", "oligo", "-i", fa], ["min", "-i", fa], ["ctr", "-i", fa, "-k", "12"]):
        for v in (-1, 1 << 64, "two"):
            probes.append((base + ["-t=%s" % v], "dir" if base[0] == "ctr" else "file"))

    def probe(item):
        args, kind = item
        for pre_existing in (False, True):
            wd = fresh_dir("ref")
            out = os.path.join(wd, "out")
            if pre_existing:
                if kind == "file":
                    open(out, "wb").write(b"sentinel\n")
                else:
                    os.makedirs(out)
                    open(os.path.join(out, "kmers.counts"), "wb").write(b"sentinel\n")
                    open(os.path.join(out, "kmers.vectors"), "wb").write(b"sentinel\n")
            full = args + ["-o", out]
            rc, so, err, to = cli(full)
            rep.ev(1, 1)
            a = {"args": args, "kind": kind, "pre_existing": pre_existing}
            if not refusal(rc, err, to):
                rep.violation("out-of-range-accepted", len(args), "kmertools %s: exit %d with empty stderr - value outside the documented range was not refused" % (" ".join(full), rc), "c15_refusal", a)
            else:
                if not pre_existing and os.path.exists(out) and (kind == "file" or os.listdir(out)):
                    rep.violation("refusal-produced-output", len(args), "kmertools %s: refused (exit %d) but created output %s" % (" ".join(full), rc, os.listdir(out) if kind == "dir" else out), "c15_refusal", a)
                if pre_existing:
                    files = [out] if kind == "file" else [os.path.join(out, f) for f in ("kmers.counts", "kmers.vectors")]
                    if any(read(f) != b"sentinel\n" for f in files) or (kind == "dir" and sorted(os.listdir(out)) != ["kmers.counts", "kmers.vectors"]):
                        rep.violation("refusal-changed-output", len(args), "kmertools %s: refused but changed the existing output" % " ".join(full), "c15_refusal", a)
            shutil.rmtree(wd, ignore_errors=True)

    pmap(probe, probes)
    rep.count("c15.refusal_probes", 2 * len(probes))
    rep.sample("kmertools min -i in5.fa -m 10 -w 10 -o out   must be refused (window not longer than m), out untouched")


def parse_counts(data, acgt, k):
    d = {}
    for line in lines_of(data) or []:
        a, b = line.split(b"\t")
        key = pm.code_of(a) if acgt else int(a)
        if acgt and len(a) != k:
            key = None
        if key in d or key is None:
            return None
        d[key] = int(b)
    return d


def c15_others(rep, d, inputs, tier):
    """cgr, cov, min, ctr: CLI == library for the same settings; -t invariance; presets; --acgt; --counts"""
    jobs = []
    # cgr (whole sequence needs clean records)
    for name in ("in2", "in37c"):
        for v in (None, 1, 16):
            for t in (0, 1, 2, 16):
                jobs.append(("cgr", name, {"v": v, "t": t}))
        for k in (3, 7):
            for counts in (0, 1):
                for v in (1, 16):
                    for t in (0, 1, 16):
                        jobs.append(("kcgr", name, {"k": k, "counts": counts, "v": v, "t": t}))
    for name in ("in5", "in37"):
        for k in (3, 5):
            for counts in (0, 1):
                for t in (0, 2):
                    jobs.append(("kcgr", name, {"k": k, "counts": counts, "v": 16, "t": t}))
    # cov
    for name in ("in5", "in37"):
        for k in (7, 15, 31):
            for bs, bc in ((5, 5), (16, 16), (5, 16)):
                for mem in (6, 128):
                    for preset in ("csv", "tsv", "spc"):
                        for counts in (0, 1):
                            for alt in (0, 1):
                                for t in ((0, 1, 2, 16) if (preset == "spc" and mem == 6) else (2,)):
                                    jobs.append(("cov", name, {"k": k, "bs": bs, "bc": bc, "mem": mem, "preset": preset, "counts": counts, "alt": alt, "t": t}))
    # min
    for name in ("in5", "in37"):
        for m in (7, 10, 28):
            for w in (0, m + 1, 31):
                if w != 0 and w <= m:
                    continue
                for preset in ("s2m", "m2s"):
                    for t in (0, 1, 2, 16):
                        jobs.append(("min", name, {"m": m, "w": w, "preset": preset, "t": t}))
    for m in (7, 10):
        for w in (0, 12, 31):
            for preset in ("s2m", "m2s"):
                for t in (1, 4):
                    jobs.append(("min", "dup", {"m": m, "w": w, "preset": preset, "t": t}))
    # ctr
    for name in ("in5", "in37"):
        for k in (10, 21, 31):
            for mem in (6, 128):
                for acgt in (0, 1):
                    for t in (0, 1, 2, 16):
                        jobs.append(("ctr", name, {"k": k, "mem": mem, "acgt": acgt, "t": t}))

    libcache = {}
    cache_lock = threading.Lock()

    def lib_result(kind, name, o):
        key = (kind, name, tuple(sorted((k, v) for k, v in o.items() if k != "t")))
        with cache_lock:
            if key in libcache:
                return libcache[key]
        paths = inputs[name][0]
        wd = fresh_dir("lib")
        out = os.path.join(wd, "out")
        if kind == "cgr":
            lib("cgr", **{"in": paths["fa"], "out": out, "vecsize": o["v"] or 1, "threads": 1})
            res = read(out)
        elif kind == "kcgr":
            lib("kcgr", **{"in": paths["fa"], "out": out, "k": o["k"], "vecsize": o["v"], "counts": o["counts"], "threads": 1})
            res = read(out)
        elif kind == "cov":
            kw = {"in": paths["fa"], "out": out, "k": o["k"], "binsize": o["bs"], "bincount": o["bc"], "memory": o["mem"],
                  "preset": o["preset"], "counts": o["counts"], "threads": 1}
            if o["alt"]:
                kw["alt"] = inputs["in2"][0]["fa"]
            lib("cov", **kw)
            res = (read(os.path.join(out, "kmers.vectors")), read(os.path.join(out, "kmers.counts")))
        elif kind == "min":
            lib("min", **{"in": paths["fa"], "out": out, "m": o["m"], "w": o["w"], "preset": o["preset"], "threads": 1})
            res = read(out)
        else:
            lib("ctr", **{"in": paths["fa"], "out": out, "k": o["k"], "memory": o["mem"], "acgt": o["acgt"], "threads": 1})
            res = read(os.path.join(out, "kmers.counts"))
        shutil.rmtree(wd, ignore_errors=True)
        with cache_lock:
            libcache[key] = res
        return res

    def do(job):
        kind, name, o = job
        paths = inputs[name][0]
        wd = fresh_dir("cli")
        out = os.path.join(wd, "out")
        if kind == "cgr":
            args = ["comp", "cgr", "-i", paths["fa"], "-o", out, "-t", str(o["t"])] + (["-v", str(o["v"])] if o["v"] else [])
        elif kind == "kcgr":
            args = ["comp", "cgr", "-i", paths["fa"], "-o", out, "-k", str(o["k"]), "-v", str(o["v"]), "-t", str(o["t"])] + (["-c"] if o["counts"] else [])
        elif kind == "cov":
            args = ["cov", "-i", paths["fa"], "-o", out, "-k", str(o["k"]), "-s", str(o["bs"]), "-c", str(o["bc"]), "-m", str(o["mem"]),
                    "-p", o["preset"], "-t", str(o["t"])] + (["--counts"] if o["counts"] else []) + (["-a", inputs["in2"][0]["fa"]] if o["alt"] else [])
        elif kind == "min":
            args = ["min", "-i", paths["fa"], "-o", out, "-m", str(o["m"]), "-w", str(o["w"]), "-p", o["preset"], "-t", str(o["t"])]
        else:
            args = ["ctr", "-i", paths["fa"], "-o", out, "-k", str(o["k"]), "-m", str(o["mem"]), "-t", str(o["t"])] + (["--acgt"] if o["acgt"] else [])
        # every other run (by its settings) finds the results of an earlier, different run at its output location
        stale = sum(len(str(v)) + (v if isinstance(v, int) else 0) for v in o.values()) % 2 == 0
        if stale:
            if kind in ("cov", "ctr"):
                os.makedirs(out)
                open(os.path.join(out, "kmers.counts"), "wb").write(b"".join(b"%d\t%d\n" % (1000 + i, 7) for i in range(3000)))
                open(os.path.join(out, "kmers.vectors"), "wb").write(b"0.250000 0.250000 0.250000 0.250000 0.000000\n" * 2000)
            else:
                open(out, "wb").write(b"left over from an earlier run\n" * 3000)
        rc, so, err, to = cli(args, timeout=60)
        rep.ev(1, 1)
        a = {"kind": kind, "name": name, "o": o}
        cmdline = "kmertools " + " ".join(args) + (" [output location holds an earlier run's results]" if stale else "")
        if to or rc != 0:
            rep.violation("accepted-options-failed", 5, "%s: exit %s (timeout=%s) stderr %r" % (cmdline, rc, to, err[-300:]), "c15_other", a)
            shutil.rmtree(wd, ignore_errors=True)
            return
        want = lib_result(kind, name, o)
        if kind in ("cgr", "kcgr"):
            got = read(out)
            ok = got == want
        elif kind == "cov":
            got = read(os.path.join(out, "kmers.vectors"))
            ok = got == want[0]
            gc, wc = read(os.path.join(out, "kmers.counts")), want[1]
            if ok and sorted(lines_of(gc) or []) != sorted(lines_of(wc) or []):
                ok = False
            left = sorted(f for f in os.listdir(out) if f.startswith("temp_"))
            if ok and left:
                rep.violation("temp-file-survives", 5, "%s: output directory still holds %s" % (cmdline, left), "c15_other", a)
        elif kind == "min":
            got = read(out)
            ok = got is not None and want is not None and sorted(lines_of(got)) == sorted(lines_of(want)) if o["preset"] == "s2m" else None
            if ok is None:  # m2s: lists compared as multisets
                ok = m2s_canon(got) == m2s_canon(want) and got is not None
        else:
            got = read(os.path.join(out, "kmers.counts"))
            ok = got is not None and want is not None and sorted(lines_of(got)) == sorted(lines_of(want))
            left = sorted(f for f in os.listdir(out) if f.startswith("temp_"))
            if ok and left:
                rep.violation("temp-file-survives", 5, "%s: output directory holds %s after the run" % (cmdline, left), "c15_other", a)
        if not ok:
            rep.violation("cli-differs-from-library", 5, "%s: result differs from the library result for the same settings" % cmdline, "c15_other", a)
        shutil.rmtree(wd, ignore_errors=True)

    pmap(do, jobs)
    rep.count("c15.other_cli_runs", len(jobs))
    # relations between library results (which the CLI results were just shown to equal)
    for (kind, name, items), res in list(libcache.items()):
        o = dict(items)
        if kind == "ctr" and o["acgt"] == 1:
            num = libcache.get(("ctr", name, tuple(sorted({**o, "acgt": 0}.items()))))
            if num is not None and res is not None:
                rep.ev(1, 1)
                a, b = parse_counts(res, True, o["k"]), parse_counts(num, False, o["k"])
                recs = inputs[name][1]
                if a is None or a != b:
                    rep.violation("acgt-changes-more-than-rendering", 5, "ctr %s k=%d: --acgt lists different k-mers/counts than the numeric output" % (name, o["k"]), "c15_rel", {"kind": kind, "name": name, "o": o})
                elif b != pm.counts(recs, o["k"]):
                    rep.violation("counts-vs-model", 5, "ctr %s k=%d: counts differ from the model" % (name, o["k"]), "c15_rel", {"kind": kind, "name": name, "o": o})
        if kind == "min" and o["preset"] == "m2s" and res is not None:
            s2m = libcache.get(("min", name, tuple(sorted({**o, "preset": "s2m"}.items()))))
            if s2m is not None:
                rep.ev(1, 1)
                inv = {}
                for line in lines_of(s2m):
                    f = line.rstrip(b"\t").split(b"\t")
                    for hit in f[1:]:
                        mm, _, span = hit.partition(b":")
                        a, _, b = span.partition(b"-")
                        inv.setdefault(mm, []).append(b'"%s", %s, %s' % (f[0], a, b))
                inv = {k: sorted(v) for k, v in inv.items()}
                if m2s_canon(res) != inv:
                    rep.violation("m2s-is-not-the-inversion-of-s2m", 5, "min %s %r: the m2s preset does not list exactly the (id, start, end) windows that the s2m preset lists per minimiser (as multisets)" % (name, o), "c15_rel", {"kind": kind, "name": name, "o": o})
        if kind == "cov" and o["preset"] != "spc":
            spc = libcache.get(("cov", name, tuple(sorted({**o, "preset": "spc"}.items()))))
            if spc is not None and res is not None and res[0] is not None:
                rep.ev(1, 1)
                if res[0].replace(PRESET_DELIM[o["preset"]], b" ") != spc[0]:
                    rep.violation("preset-changes-more-than-delimiter", 5, "cov %s %r: differs from spc by more than the delimiter" % (name, o), "c15_rel", {"kind": kind, "name": name, "o": o})
        if kind == "cov" and o["preset"] == "spc" and res is not None and res[0] is not None:
            recs = inputs[name][1]
            table = pm.counts(inputs["in2"][1] if o["alt"] else recs, o["k"])
            rows = lines_of(res[0])
            rep.ev(1, 1)
            bad = None
            if len(rows) != len(recs):
                bad = "%d rows for %d records" % (len(rows), len(recs))
            else:
                for i, (row, r) in enumerate(zip(rows, recs)):
                    h, t = pm.histogram(r, o["k"], table, o["bs"], o["bc"])
                    toks = row.split(b" ")
                    if len(toks) != o["bc"] or any((float(x) != h[j]) if o["counts"] else (not pm.close(float(x), h[j], t)) for j, x in enumerate(toks)):
                        bad = "row %d = %r, model %r of %d" % (i, row[:80], h, t)
                        break
            if bad:
                rep.violation("value-vs-model", 5, "cov %s %r: %s" % (name, o, bad), "c15_rel", {"kind": kind, "name": name, "o": o})
    rep.sample("kmertools cov -i in37.fa -o out -k 15 -s 5 -c 16 -m 128 -p csv --counts -a in2.fa -t 2 == library; csv == spc modulo delimiter")
    rep.sample("kmertools ctr -i in5.fa -o out -k 21 --acgt -t 16: same k-mers and counts as the numeric output, no temp file left")


def c15_bin_sweep(rep, d, tier):
    """-s means bins of exactly that width, for every width in a contiguous range: the input makes k-mer
    multiplicities fall exactly on bin edges (s, 2s, 3s) and just below them"""
    k = 15
    x, y, z, u = b"ACGGTCAAGTCCATG", b"TTGACCGGATACGCA", b"GGCATTACGATCCGA", b"CATGCCGATTAGGCT"
    smax = 1000 if tier == "thorough" else 210

    def do(s):
        recs = [x] * s + [y] * (2 * s) + [z] * (3 * s) + [u] * (2 * s - 1)
        wd = fresh_dir("bins")
        fa = os.path.join(wd, "in.fa")
        with open(fa, "wb") as f:
            for i, r in enumerate(recs):
                f.write(b">r%d\n%s\n" % (i, r))
        out = os.path.join(wd, "out")
        args = ["cov", "-i", fa, "-o", out, "-k", str(k), "-s", str(s), "-c", "5", "--counts", "-t", "2"]
        rc, so, err, to = cli(args, timeout=60)
        rep.ev(1, 1)
        a = {"s": s}
        if to or rc != 0:
            rep.violation("accepted-options-failed", 5, "kmertools %s: exit %s stderr %r" % (" ".join(args), rc, err[-300:]), "c15_bins", a)
        else:
            rows = lines_of(read(os.path.join(out, "kmers.vectors"))) or []
            want = {x: 1, y: 2, z: 3, u: 1}
            bad = None
            if len(rows) != len(recs):
                bad = "%d rows for %d records" % (len(rows), len(recs))
            else:
                for i, (row, r) in enumerate(zip(rows, recs)):
                    exp = b" ".join(b"1" if j == want[r] else b"0" for j in range(5))
                    if row != exp:
                        bad = "row %d (a record whose only %d-mer occurs %d times in the input) is %r; with bins of width %d it belongs to bin %d: %r" % (
                            i, k, recs.count(r), row, s, want[r], exp)
                        break
            if bad:
                rep.violation("bin-size-option", 5, "kmertools %s: %s" % (" ".join(args[:1] + args[5:]), bad), "c15_bins", a)
        shutil.rmtree(wd, ignore_errors=True)

    pmap(do, range(5, smax + 1))
    rep.count("cases.bin_size_sweep", smax - 4)

    # the multiplicity axis beyond 2^16 (and, thorough, 2^24) with bins wide enough to tell such counts apart
    def wide(job):
        copies, s, c = job
        recs = [b"A" * (copies + k - 2), x, b"A" * k]
        wd = fresh_dir("wide")
        fa = os.path.join(wd, "in.fa")
        open(fa, "wb").write(fasta_bytes(recs))
        out = os.path.join(wd, "out")
        args = ["cov", "-i", fa, "-o", out, "-k", str(k), "-s", str(s), "-c", str(c), "--counts", "-t", "2"]
        rc, so, err, to = cli(args, timeout=300)
        rep.ev(1, 1)
        a = {"copies": copies, "s": s, "c": c}
        if to or rc != 0:
            rep.violation("accepted-options-failed", 5, "kmertools %s: exit %s stderr %r" % (" ".join(args[:1] + args[5:]), rc, err[-300:]), "c15_bins_wide", a)
        else:
            rows = lines_of(read(os.path.join(out, "kmers.vectors"))) or []
            exp = []
            for r, mult in ((recs[0], copies), (x, 1), (recs[2], copies)):
                row = [0] * c
                row[min(mult // s, c - 1)] = len(r) - k + 1
                exp.append(b" ".join(b"%d" % v for v in row))
            if [[float(t) for t in r.split(b" ")] for r in rows] != [[float(t) for t in r.split(b" ")] for r in exp]:
                rep.violation("bin-of-large-count", 5, "kmertools %s on a record holding one %d-mer %d times: rows %r, expected %r (bin = count // %d, last bin open-ended)" % (
                    " ".join(args[:1] + args[5:]), k, copies, [r[:80] for r in rows], [r[:80] for r in exp], s), "c15_bins_wide", a)
        shutil.rmtree(wd, ignore_errors=True)

    jobs = [(70_000, 10_000, 10), (70_000, 1000, 100), (70_000, 65_536, 5), (140_000, 65_536, 5), (65_535, 13_107, 7), (65_536, 13_107, 7), (65_537, 8192, 9)]
    if tier == "thorough":
        jobs += [((1 << 24) + 5, 1 << 20, 20), ((1 << 24) + 5, 1 << 24, 5)]
    pmap(wide, jobs)
    rep.count("cases.bin_wide_geometry", len(jobs))
    rep.sample("kmertools cov -k 15 -s 49 -c 5 --counts on 49 x X, 98 x Y, 147 x Z, 97 x U (single-window records): rows of X in bin 1, Y in bin 2, Z in bin 3, U in bin 1; every -s from 5 to %d" % smax)


def c15_paths(rep, d, inputs):
    """where the input and the output live, how they are named and what the environment says is not part of what a
    subcommand computes: every variant must give the result of the plain run (absolute, simple paths)"""
    recs = inputs["in5"][1]
    fa_bytes = inputs["in5"][0]["fa_bytes"]
    subs = {
        "oligo": (["comp", "oligo", "-k", "3"], "file"), "oligo-c": (["comp", "oligo", "-k", "3", "-c", "-H"], "file"),
        "kcgr": (["comp", "cgr", "-k", "3", "-v", "16"], "file"), "cov": (["cov", "-k", "7", "-s", "5", "-c", "5"], "dir"),
        "s2m": (["min", "-m", "7", "-w", "12"], "file"), "m2s": (["min", "-m", "7", "-p", "m2s"], "file"), "ctr": (["ctr", "-k", "11"], "dir"),
    }

    def result(out, kind, name):
        if kind == "file":
            return {"out": read(out)}
        return {f: read(os.path.join(out, f)) for f in (("kmers.counts",) if name == "ctr" else ("kmers.counts", "kmers.vectors"))}

    def canon(name, res):
        o = {}
        for f, data in res.items():
            if data is None:
                o[f] = None
            elif f == "kmers.counts" or name == "s2m":
                o[f] = sorted(lines_of(data))
            elif name == "m2s":
                o[f] = m2s_canon(data)
            else:
                o[f] = data
        return o

    def variants(base):
        """(label, input argument, output argument, cwd, env, stdin file, set-up)"""
        def mk(path):
            os.makedirs(os.path.dirname(path), exist_ok=True)
            open(path, "wb").write(fa_bytes)
            return path
        v = []
        v.append(("plain", mk(os.path.join(base, "p", "in.fa")), os.path.join(base, "p", "out"), None, None))
        v.append(("relative paths", "in.fa", "out", mk(os.path.join(base, "rel", "in.fa")) and os.path.join(base, "rel"), None))
        v.append(("relative with ./ and ..", "./sub/../in.fa", "./o/../out", (mk(os.path.join(base, "dots", "in.fa")), os.makedirs(os.path.join(base, "dots", "sub")), os.makedirs(os.path.join(base, "dots", "o")))[0] and os.path.join(base, "dots"), None))
        v.append(("blanks and non-ASCII in the path", mk(os.path.join(base, "my reads \u00e9\u4e2d", "in put.v1.fa")), os.path.join(base, "my reads \u00e9\u4e2d", "out put"), None, None))
        v.append(("dots in directory names", mk(os.path.join(base, "run.fq.gz", "x.y", "in.fa")), os.path.join(base, "run.fq.gz", "x.y", "out.txt.gz"), None, None))
        v.append(("output nested in directories that do not exist yet (dir outputs) / input via symlink", None, None, None, None))
        v.append(("RAYON_NUM_THREADS=1 with -t 0", mk(os.path.join(base, "e1", "in.fa")), os.path.join(base, "e1", "out"), None, {"RAYON_NUM_THREADS": "1"}))
        v.append(("RAYON_NUM_THREADS=3 with -t 0", mk(os.path.join(base, "e3", "in.fa")), os.path.join(base, "e3", "out"), None, {"RAYON_NUM_THREADS": "3"}))
        v.append(("RAYON_NUM_THREADS=7 with -t 2", mk(os.path.join(base, "e7", "in.fa")), os.path.join(base, "e7", "out"), None, {"RAYON_NUM_THREADS": "7", "_t": "2"}))
        v.append(("RAYON_NUM_THREADS=0 (rayon: choose automatically) with -t 0", mk(os.path.join(base, "e0", "in.fa")), os.path.join(base, "e0", "out"), None, {"RAYON_NUM_THREADS": "0"}))
        v.append(("RAYON_NUM_THREADS empty with -t 0", mk(os.path.join(base, "ee", "in.fa")), os.path.join(base, "ee", "out"), None, {"RAYON_NUM_THREADS": ""}))
        v.append(("RAYON_NUM_THREADS=many (not a number) with -t 0", mk(os.path.join(base, "ej", "in.fa")), os.path.join(base, "ej", "out"), None, {"RAYON_NUM_THREADS": "many"}))
        v.append(("input and output in the current directory, output name next to the input name", "in.fa", "in.fa.out", mk(os.path.join(base, "same", "in.fa")) and os.path.join(base, "same"), None))
        return v

    jobs = [(name, i) for name in subs for i in range(13)]

    def do(job):
        name, vi = job
        args, kind = subs[name]
        base = fresh_dir("paths")
        label, inp, out, cwd, env = variants(base)[vi]
        if inp is None:
            # symlinked input; for directory outputs a nested, not yet existing output directory
            real = os.path.join(base, "real", "in.fa")
            os.makedirs(os.path.dirname(real))
            open(real, "wb").write(fa_bytes)
            os.makedirs(os.path.join(base, "l"))
            inp = os.path.join(base, "l", "link.fa")
            os.symlink(real, inp)
            out = os.path.join(base, "l", "a", "b", "out") if kind == "dir" else os.path.join(base, "l", "out")
            if kind == "dir":
                label = "input via symlink, output directory nested two levels below an existing one"
            else:
                label = "input via symlink"
        env = dict(env or {})
        t = env.pop("_t", "0")
        if kind == "dir" and vi % 2 == 1 and not out.endswith("/"):
            out = out + "/"  # a trailing slash on the output directory
            label += ", trailing slash on the output directory"
        rc, so, err, to = cli(args + ["-i", inp, "-o", out, "-t", t], cwd=cwd, env=env or None, timeout=60)
        rep.ev(1, 1)
        full_out = out if os.path.isabs(out) else os.path.join(cwd, out)
        res = canon(name, result(full_out.rstrip("/") if kind == "dir" else full_out, kind, name)) if rc == 0 and not to else None
        shutil.rmtree(base, ignore_errors=True)
        return (name, vi, label, rc, err[-200:], res)

    results = pmap(do, jobs)
    plain = {name: res for (name, vi, label, rc, err, res) in results if vi == 0}
    for name, vi, label, rc, err, res in results:
        a = {"sub": name, "variant": vi}
        if vi == 0:
            if res is None or any(v is None for v in res.values()):
                rep.violation("accepted-options-failed", 3, "kmertools %s on plain absolute paths: exit %s %r" % (name, rc, err), "c15_paths", a)
            continue
        if res is None:
            rep.violation("path-or-environment-changes-the-result", 5, "kmertools %s with %s: exit %s, stderr %r (the plain run succeeds)" % (name, label, rc, err), "c15_paths", a)
        elif res != plain.get(name):
            rep.violation("path-or-environment-changes-the-result", 5, "kmertools %s with %s: the result differs from the run on plain absolute paths" % (name, label), "c15_paths", a)
    # standard input: a pipe, a regular file, and an empty file
    base = fresh_dir("stdin")
    fa = os.path.join(base, "in.fa")
    open(fa, "wb").write(fa_bytes)
    open(os.path.join(base, "empty.fa"), "wb").close()
    outs = {}
    for how in ("pipe", "file", "argument"):
        out = os.path.join(base, "out-" + how)
        if how == "pipe":
            rc, so, err, to = cli(["comp", "oligo", "-i", "-", "-o", out, "-k", "3", "-t", "2"], stdin=fa_bytes)
        elif how == "file":
            rc, so, err, to = cli(["comp", "oligo", "-i", "-", "-o", out, "-k", "3", "-t", "2"], stdin_file=fa)
        else:
            rc, so, err, to = cli(["comp", "oligo", "-i", fa, "-o", out, "-k", "3", "-t", "2"])
        rep.ev(1, 1)
        outs[how] = read(out) if rc == 0 else None
    if not (outs["pipe"] == outs["file"] == outs["argument"]) or outs["pipe"] is None:
        rep.violation("path-or-environment-changes-the-result", 5, "kmertools comp oligo: input through a pipe, through a regular file on standard input and by name give different results (%s)" % {k: (None if v is None else len(v)) for k, v in outs.items()}, "c15_paths", {"sub": "stdin"})
    out = os.path.join(base, "out-empty")
    rc, so, err, to = cli(["comp", "oligo", "-i", "-", "-o", out, "-k", "3"], stdin_file=os.path.join(base, "empty.fa"))
    rep.ev(1, 1)
    if rc != 0 or read(out) != b"":
        rep.violation("path-or-environment-changes-the-result", 5, "kmertools comp oligo -i - with an empty regular file on standard input: exit %s, output %r" % (rc, read(out)), "c15_paths", {"sub": "stdin-empty"})
    shutil.rmtree(base, ignore_errors=True)
    rep.count("c15.path_and_environment_runs", len(jobs) + 4)
    rep.sample("kmertools cov -i link.fa -o l/a/b/out/ (symlinked input, nested new output directory, trailing slash) == the run on plain absolute paths")


def c_env_threads(tier, kinds):
    """the default thread count (no set_threads / -t 0) follows rayon, whose environment variable RAYON_NUM_THREADS may
    be unset, a number, 0 (= choose automatically), empty or not a number: the result never depends on it.
    One process per (kind, environment, entry point); oracle = the reference model."""
    rep = Rep()
    d = fresh_dir("envin")
    recs = lcg_records(9, 77, 20, 60, True) + [b"ACG", b""]
    paths = write_inputs(d, "e", recs)
    envs = [None, "0", "1", "3", "", "lots"]
    jobs = [(kind, e, how) for kind in kinds for e in envs for how in ("lib", "cli")]

    def do(job):
        kind, e, how = job
        wd = fresh_dir("env")
        out = os.path.join(wd, "out")
        env = {"KTMC_SCRATCH": fe.scratch_base()}
        if e is not None:
            env["RAYON_NUM_THREADS"] = e
        k = 11
        if how == "lib":
            if kind == "ctr":
                rc, so, err, to = run([fe.KTMC, "lib", "ctr", "in=" + paths["fa"], "out=" + out, "k=%d" % k, "threads=0"], env=env, timeout=60)
            elif kind == "cov":
                rc, so, err, to = run([fe.KTMC, "lib", "cov", "in=" + paths["fa"], "out=" + out, "k=%d" % k, "binsize=1", "bincount=4", "counts=1", "threads=0"], env=env, timeout=60)
            else:
                rc, so, err, to = run([fe.KTMC, "lib", "oligo", "in=" + paths["fa"], "out=" + out, "k=3", "writer=mmap", "threads=0"], env=env, timeout=60)
        else:
            cenv = {} if e is None else {"RAYON_NUM_THREADS": e}
            if kind == "ctr":
                rc, so, err, to = cli(["ctr", "-i", paths["fa"], "-o", out, "-k", str(k), "-t", "0"], env=cenv)
            elif kind == "cov":
                rc, so, err, to = cli(["cov", "-i", paths["fa"], "-o", out, "-k", str(k), "-s", "5", "-c", "5", "--counts", "-t", "0"], env=cenv)
            else:
                rc, so, err, to = cli(["comp", "oligo", "-i", paths["fa"], "-o", out, "-k", "3", "-t", "0"], env=cenv)
        rep.ev(1, 1)
        what = "%s %s with RAYON_NUM_THREADS %s and no explicit thread count" % ("library" if how == "lib" else "kmertools", kind, "unset" if e is None else repr(e))
        a = {"kind": kind, "env": e, "how": how}
        bad = None
        if rc != 0 or to:
            bad = "exit %s, stderr %r" % (rc, err[-200:])
        elif kind == "ctr" or kind == "cov":
            table = parse_counts(read(os.path.join(out, "kmers.counts")), False, k)
            want = pm.counts(recs, k)
            if table is None or table != want:
                bad = "kmers.counts holds %s distinct k-mers, the model %d" % (None if table is None else len(table), len(want))
            elif kind == "cov":
                rows = lines_of(read(os.path.join(out, "kmers.vectors"))) or []
                bs, bc = (1, 4) if how == "lib" else (5, 5)
                if len(rows) != len(recs):
                    bad = "%d rows for %d records" % (len(rows), len(recs))
                else:
                    for i, (row, r) in enumerate(zip(rows, recs)):
                        h, t = pm.histogram(r, k, want, bs, bc)
                        if [float(x) for x in row.split(b" ")] != [float(x) for x in h]:
                            bad = "row %d = %r, model %r" % (i, row, h)
                            break
        else:
            rows = lines_of(read(out)) or []
            if len(rows) != len(recs):
                bad = "%d rows for %d records" % (len(rows), len(recs))
            else:
                for i, (row, r) in enumerate(zip(rows, recs)):
                    v, tt = pm.oligo(r, 3)
                    toks = row.split(b" ")
                    if len(toks) != len(v) or any(not pm.close(float(x), v[j], tt) for j, x in enumerate(toks)):
                        bad = "row %d differs from the model" % i
                        break
        if bad:
            rep.violation("default-thread-count-changes-the-result", 3, "%s: %s" % (what, bad), "c_env", a)
        shutil.rmtree(wd, ignore_errors=True)

    pmap(do, jobs)
    rep.count("env.default_thread_runs", len(jobs))
    rep.sample("RAYON_NUM_THREADS=0 kmertools ctr -k 11 -t 0: kmers.counts equals the model's table")
    return rep.done()


def usable_cpus():
    try:
        return sorted(os.sched_getaffinity(0))
    except Exception:
        return list(range(fe.NCPU))


def c_env_cpus(tier, kinds):
    """the number of CPUs the process may use (cgroup cpuset, taskset, batch-system binding) is part of the environment,
    like RAYON_NUM_THREADS: results never depend on it, whatever thread count is requested (more, fewer, as many, or the
    default).  One process per (kind, usable CPUs, -t, record count) under `taskset`; oracle = the bytes (tables: the
    parsed table) of the unrestricted one-thread run of the same command, which the other parts compare with the model.
    kind "header" is C03: the index maps (all codes, in the harness) and the header line for every k."""
    rep = Rep()
    cpus = usable_cpus()
    if not shutil.which("taskset") or len(cpus) < 2:
        rep.count("env.cpu_runs", 0)
        rep.note("taskset unavailable or a single usable CPU: the CPU-count dimension was not explored")
        return rep.done()
    counts = [n for n in ((1, 2, 3, 6) if tier == "quick" else range(1, len(cpus))) if n < len(cpus)]
    d = fresh_dir("cpuin")
    sets = {}
    clean = "cgr" in kinds  # whole-sequence CGR refuses records with ambiguous bytes
    for nrec in (3, 16, 37):
        recs = lcg_records(nrec, 500 + nrec, 24, 70, not clean)
        sets[nrec] = (recs, write_inputs(d, "c%d" % nrec, recs))
    threads = (0, 1, 2, 3, 4, 8, 16)

    def argv(kind, inp, out, t):
        if kind == "oligo":
            return ["comp", "oligo", "-i", inp, "-o", out, "-k", "3", "-t", str(t)], [""]
        if kind == "cgr":
            return ["comp", "cgr", "-i", inp, "-o", out, "-v", "1000", "-t", str(t)], [""]
        if kind == "kcgr":
            return ["comp", "cgr", "-i", inp, "-o", out, "-k", "3", "-v", "8", "-t", str(t)], [""]
        if kind == "cov":
            return ["cov", "-i", inp, "-o", out, "-k", "11", "-s", "5", "-c", "6", "-t", str(t)], ["/kmers.vectors", "/kmers.counts"]
        if kind == "ctr":
            return ["ctr", "-i", inp, "-o", out, "-k", "11", "-t", str(t)], ["/kmers.counts"]
        if kind == "s2m":
            return ["min", "-i", inp, "-o", out, "-m", "7", "-w", "11", "-p", "s2m", "-t", str(t)], [""]
        if kind == "m2s":
            return ["min", "-i", inp, "-o", out, "-m", "7", "-w", "11", "-p", "m2s", "-t", str(t)], [""]
        raise ValueError(kind)

    def canon(kind, suffix, data):
        if data is None:
            return None
        if suffix == "/kmers.counts":
            return parse_counts(data, False, 11)
        if kind == "m2s":
            return m2s_canon(data)
        if kind == "s2m":
            return sorted(lines_of(data) or [])  # the order of the lines is the workers' (C10: one line per record)
        return data

    def outcome(kind, nrec, t, ncpu):
        wd = fresh_dir("cpu")
        out = os.path.join(wd, "out")
        args, files = argv(kind, sets[nrec][1]["fa"], out, t)
        pre = [] if ncpu is None else ["taskset", "-c", ",".join(str(c) for c in cpus[:ncpu])]
        rc, so, err, to = run(pre + [fe.CLI] + args, timeout=120)
        res = (rc, to, [canon(kind, f, read(out + f)) for f in files])
        shutil.rmtree(wd, ignore_errors=True)
        return res, err

    jobs = []
    for kind in kinds:
        if kind == "header":
            for n in counts:
                for k in range(1, 8):
                    jobs.append(("header", n, k, None))
            continue
        for nrec in sets:
            base, berr = outcome(kind, nrec, 1, None)
            if base[0] != 0 or any(x is None for x in base[2]):
                raise fe.Machinery("c_env_cpus: the unrestricted one-thread run of %s failed (exit %s): %r" % (kind, base[0], berr[-200:]))
            for n in counts:
                for t in threads:
                    jobs.append((kind, n, t, (nrec, base)))

    def do(job):
        kind, n, t, extra = job
        rep.ev(1, 1)
        pre = ["taskset", "-c", ",".join(str(c) for c in cpus[:n])]
        if kind == "header":
            k = t
            a = {"kind": kind, "cpus": n, "k": k}
            rc, so, err, to = run(pre + [fe.KTMC, "case", "C03", str(k)], timeout=120, env={"KTMC_SCRATCH": fe.scratch_base()})
            if rc != 0 or to:
                rep.violation("index-depends-on-usable-cpus", k, "with %d usable CPUs the index maps / header of k=%d are not the sorted canonical k-mers: %s" % (n, k, (so + err)[-300:]), "c_env_cpus", a)
                return
            if k < 3:  # the command line accepts k from 3
                return
            wd = fresh_dir("cpuh")
            out = os.path.join(wd, "o.txt")
            inp = sets[3][1]["fa"]
            rc, so, err, to = run(pre + [fe.CLI, "comp", "oligo", "-i", inp, "-o", out, "-k", str(k), "-H", "-t", "0"], timeout=120)
            ls = lines_of(read(out)) or []
            names = [x.encode() for x in pm.header_names(k)]
            if rc != 0 or not ls or ls[0].split(b" ") != names or any(len(r.split(b" ")) != len(names) for r in ls[1:]):
                rep.violation("header-depends-on-usable-cpus", k, "kmertools comp oligo -H -k %d with %d usable CPUs: exit %s, header %r... (expected the %d canonical k-mers in order), %d lines" % (k, n, rc, (ls[0][:50] if ls else b""), len(names), len(ls)), "c_env_cpus", a)
            shutil.rmtree(wd, ignore_errors=True)
            return
        nrec, base = extra
        got, err = outcome(kind, nrec, t, n)
        if got != base:
            a = {"kind": kind, "cpus": n, "t": t, "records": nrec}
            detail = "exit %s vs %s" % (got[0], base[0])
            for x, y in zip(got[2], base[2]):
                if x != y:
                    if isinstance(x, bytes) and isinstance(y, bytes):
                        detail += "; %d lines vs %d lines" % (len(x.splitlines()), len(y.splitlines()))
                    else:
                        detail += "; a result file differs or is missing"
            rep.violation("result-depends-on-usable-cpus", n * 100 + t, "kmertools %s on %d records with -t %d restricted to %d usable CPUs differs from the unrestricted one-thread run: %s %r" % (kind, nrec, t, n, detail, err[-160:]), "c_env_cpus", a)

    pmap(do, jobs)
    rep.count("env.cpu_runs", len(jobs))
    rep.count("env.cpu_counts_explored", len(counts))
    rep.sample("taskset -c 0-2 kmertools comp cgr -t 8 on 16 records: same bytes as the unrestricted -t 1 run")
    return rep.done()


def m2s_canon(data):
    if data is None:
        return None
    out = {}
    for line in lines_of(data):
        k, _, v = line.partition(b"\t")
        body = v.strip()
        if body.startswith(b"[("):
            body = body[2:]
        if body.endswith(b")]"):
            body = body[:-2]
        hits = sorted(body.split(b"), ("))
        if k in out:
            return "duplicate"
        out[k] = hits
    return out


def c15(tier):
    rep = Rep()
    d = fresh_dir("c15in")
    inputs = {
        "in2": (None, lcg_records(2, 11, 55, 70, False)),
        "in5": (None, lcg_records(5, 23, 35, 80, True)),
        "in37": (None, lcg_records(37, 37, 40, 90, True)),
        "in37c": (None, lcg_records(37, 41, 1, 60, False)),
    }
    for name in list(inputs):
        inputs[name] = (write_inputs(d, name, inputs[name][1]), inputs[name][1])
    # records that come twice (and as reverse complement) under ids that come twice: mates of a pair, duplicated reads
    base = lcg_records(4, 51, 40, 60, True)
    dup = [base[0], base[0], base[1], bytes(reversed(base[1])).translate(bytes.maketrans(b"ACGT", b"TGCA")), base[2], base[3], base[2], base[0]]
    inputs["dup"] = (write_inputs(d, "dup", dup, ids=[b"p1", b"p1", b"p2", b"p2", b"p3", b"p3", b"p3", b"p1"]), dup)
    # pairs of records whose AAA/TTT shares (k = 3) are the two fractions with totals up to 40 000 closest to a
    # 6-decimal rounding boundary, one on either side: almost equal values that are printed differently
    nb = []
    for i in range(24):
        j = (774_965 + i * 35_711) % 1_000_000
        tp, tq = 2 * j + 1, 2_000_000
        a, b, c, e = 0, 1, 1, 1
        while b + e <= 40_000:
            mp, mq = a + c, b + e
            if mp * tq < tp * mq:
                a, b = mp, mq
            else:
                c, e = mp, mq
        for num, den in ([(a, b), (c, e)] if i % 2 == 0 else [(c, e), (a, b)]):
            if den >= 3000:
                nb.append(b"A" * (num + 2) + b"C" * (den - num))
    oligo_inputs = dict(inputs)
    oligo_inputs["nb"] = (write_inputs(d, "nb", nb), nb)
    c15_oligo(rep, d, oligo_inputs, tier)
    c15_refusals(rep, d, inputs)
    c15_others(rep, d, inputs, tier)
    c15_bin_sweep(rep, d, tier)
    c15_paths(rep, d, inputs)
    rep.note("C15: release binary built from /repo with the guard off; every lattice point is one process run; library results come from `ktmc lib` (same crates, explicit setters)")
    return rep.done()


# ------------------------------------------------------------------------------------------------ C13

def c13(tier):
    import json
    import sys
    rep = Rep()
    d = fresh_dir("c13")
    exp = os.path.join(d, "expect.txt")
    rc, so, err, to = run([fe.KTMC, "expect", tier, exp], timeout=600, env={"KTMC_SCRATCH": fe.scratch_base()})
    if rc != 0 or not os.path.exists(exp):
        raise fe.Machinery("ktmc expect failed: %s" % err[-500:])
    driver = os.path.join(fe.VERIF, "py", "pydriver.py")
    jobs = [("iter", None)] + [("batch", n) for n in (1, 2, 8, 16)] + [("bigbatch", 4), ("pythreads", 4)]
    skipped = []
    if tier == "thorough":
        try:
            avail = int([l for l in open("/proc/meminfo") if l.startswith("MemAvailable")][0].split()[1]) // (1 << 20)
        except Exception:
            avail = 0
        if avail >= 30:
            jobs.append(("hugebatch", 8))
        else:
            skipped.append("batch adding up to more than 2^32 bases not run: %d GiB of memory available" % avail)

    def do(job):
        mode, threads = job
        out = os.path.join(d, "rep-%s-%s.json" % (mode, threads))
        env = {"RAYON_NUM_THREADS": str(threads)} if threads else {}
        rc, so, err, to = run([sys.executable, driver, fe.PYMOD_DIR, exp, mode, out], timeout=1500, env=env)
        if rc != 0 or not os.path.exists(out):
            # the interpreter died (or raised): that is a verdict of C13 (never crashes the interpreter) unless
            # the module cannot even be imported, which is a build problem
            text = err.decode("utf-8", "replace")
            if "ModuleNotFoundError" in text or "ImportError" in text:
                raise fe.Machinery("pykmertools cannot be imported: %s" % text[-400:])
            r = fe.empty_report()
            r["violation_count"] = 1
            r["violations"] = [{"key": "interpreter-died", "size": 0, "runner": "py", "argv": {"fn": "c13", "args": {"mode": mode}},
                                "desc": "child interpreter running the %s comparison (RAYON_NUM_THREADS=%s) ended with status %s (timeout=%s): %s" % (mode, threads, rc, to, text[-600:])}]
            return r
        return json.load(open(out))

    reps = pmap(do, jobs, workers=5)
    merged = fe.merge_reports(reps)
    merged["notes"].append("C13: expectation file written by `ktmc expect` from the core crates; child interpreters import the pykmertools.so built from /repo (cargo build -p pip); batches under RAYON_NUM_THREADS in (1,2,8,16); one batch per shape (many small / medium / few large records) adding up to more than 2^28 bases")
    merged["notes"] += skipped
    return merged


# ------------------------------------------------------------------------------------------------ C16

def shapes_for(kk, ww):
    """record shapes relative to the size parameters (k or m = kk, window ww or None)"""
    clean = (b"ACGTTGCAAGCTTAGGCATCGATCGGATTACAGATTACACCAGTAGCTA" * 3)
    sh = {
        "empty": b"",
        "one-base": b"A",
        "k-1": clean[:kk - 1],
        "k": clean[:kk],
        "all-N": b"N" * kk,
        "N-first": b"N" + clean[:2 * kk + 3],
        "N-last": clean[5:2 * kk + 8] + b"N",
        "ordinary": clean[3:2 * kk + 9 + (ww or 0)],
    }
    sh["k-1+N"] = clean[4:4 + kk - 1] + b"N"
    # degenerate records beyond a round size threshold
    sh["all-N-100000"] = b"N" * 100000
    sh["N-but-short-stretch-120000"] = b"N" * 60000 + clean[:kk - 1] + b"N" * 60000
    if ww:
        sh["w-1"] = clean[7:7 + ww - 1]
        sh["w"] = clean[2:2 + ww]
        sh["w-1+N"] = clean[6:6 + ww - 1] + b"N"
        sh["N+w-1+N"] = b"N" + clean[1:1 + ww - 1] + b"N"
    else:
        sh["k+1"] = clean[9:9 + kk + 1]
        sh["N-middle"] = clean[:kk] + b"N" + clean[4:4 + kk]
    return sh


def fasta_bytes(recs):
    return b"".join(b">r%d d\n%s\n" % (i, r) for i, r in enumerate(recs))


def fastq_bytes(recs, wrap=None):
    out = []
    for i, r in enumerate(recs):
        w = wrap or max(len(r), 1)
        qual = bytes((b"I@+>"[(j // w + i) % 4]) if j % w == 0 else 33 + (i + j) % 60 for j in range(len(r)))
        lines = lambda x: b"".join(x[j:j + w] + b"\n" for j in range(0, len(x), w))
        out.append(b"@r%d d\n" % i + lines(r) + b"+\n" + lines(qual))
    return b"".join(out)


C16_VARIANTS = [
    # name, size k/m, window, threads-sensitive
    ("oligo", 3, None), ("oligo-c", 3, None), ("oligo-stdin", 3, None), ("oligo-csv", 3, None), ("oligo-tsv-H", 3, None), ("cgr", 3, None), ("kcgr", 3, None),
    ("cov", 7, None), ("s2m-w0", 7, None), ("m2s-w0", 7, None), ("s2m-w9", 7, 9), ("m2s-w9", 7, 9), ("ctr", 10, None),
]


def c16_check(variant, recs, t, wd, final_newline=True):
    """runs one CLI case; returns None if fine, else (key, message)"""
    name, kk, ww = variant
    data = fasta_bytes(recs)
    ext = "fa"
    if final_newline in ("fq", "fqw"):
        # the same records as FASTQ, one line per part or wrapped at 3 (the format allows it and the reader reads it);
        # quality lines start with the characters that also mark records
        ext = "fq"
        data = fastq_bytes(recs, 3 if final_newline == "fqw" else None)
        final_newline = True
    # a third of the cases (by content) use names with a blank and a non-ASCII letter, a third relative paths
    mode = (len(data) + 2 * t) % 3
    # names with a blank and a non-ASCII letter, and with characters that mean something to format strings, progress
    # templates, globs and shells
    odd_names = ["in put \u00e9.", "empty{}.", "short}.", "mixed_{lib:a}.", "pct%s%d%%.", "glob*[1]?.", "dollar$HOME.", "quote'\"`.", "back\\slash.", "{elapsed}{msg}.", "semi;amp&.", "-dash."]
    inp = os.path.join(wd, (odd_names[(len(data) // 3 + t) % len(odd_names)] if mode == 1 else "in.") + ext)
    cwd = wd if mode == 2 else None
    if final_newline == "bare" and data.endswith(b"\n\n"):
        # a last record without bases, written without a sequence line and without a line terminator: the file ends
        # with the header text
        data = data[:-2]
    elif not final_newline and data.endswith(b"\n"):
        data = data[:-1]
    open(inp, "wb").write(data)
    if (len(data) + t) % 3 == 0:
        side_cars(inp)
    out = os.path.join(wd, "out put" if mode == 1 else "out")
    # half of the cases (by content) find the results of an earlier, larger run at the output location
    if (len(data) + t) % 2 == 0:
        if name in ("cov", "ctr"):
            os.makedirs(out)
            open(os.path.join(out, "kmers.counts"), "wb").write(b"".join(b"%d\t%d\n" % (1000 + i, 7) for i in range(3000)))
            open(os.path.join(out, "kmers.vectors"), "wb").write(b"0.250000 0.250000 0.250000 0.250000 0.000000\n" * 2000)
        else:
            open(out, "wb").write(b"0.031250 0.031250 left over from an earlier run\n" * 3000)
    stdin = None
    odelim, oheader = b" ", False
    if name == "oligo":
        args = ["comp", "oligo", "-i", inp, "-o", out, "-k", str(kk)]
    elif name == "oligo-csv":
        args = ["comp", "oligo", "-i", inp, "-o", out, "-k", str(kk), "-p", "csv"]
        odelim = b","
    elif name == "oligo-tsv-H":
        args = ["comp", "oligo", "-i", inp, "-o", out, "-k", str(kk), "-p", "tsv", "-H"]
        odelim, oheader = b"\t", True
    elif name == "oligo-c":
        args = ["comp", "oligo", "-c", "-i", inp, "-o", out, "-k", str(kk)]
    elif name == "oligo-stdin":
        args = ["comp", "oligo", "-i", "-", "-o", out, "-k", str(kk)]
        stdin = data
    elif name == "cgr":
        args = ["comp", "cgr", "-i", inp, "-o", out, "-v", "16"]
    elif name == "kcgr":
        args = ["comp", "cgr", "-i", inp, "-o", out, "-k", str(kk), "-v", "16"]
    elif name == "cov":
        args = ["cov", "-i", inp, "-o", out, "-k", str(kk), "-s", "5", "-c", "5"]
    elif name.startswith("s2m") or name.startswith("m2s"):
        args = ["min", "-i", inp, "-o", out, "-m", str(kk), "-w", str(ww or 0), "-p", name[:3]]
    else:
        args = ["ctr", "-i", inp, "-o", out, "-k", str(kk)]
    args += ["-t", str(t)]
    if cwd:
        args = [os.path.relpath(a, wd) if a in (inp, out) else a for a in args]
    env = None
    if t == 0:
        # automatic thread count: what rayon's environment variable says, by content of the case
        env = {"RAYON_NUM_THREADS": ["0", "1", "3"][len(data) % 3]}
    # a quarter of the cases (by content) run with the standard error stream on a terminal, where the progress
    # display is really drawn
    tty = (len(data) + t) % 4 == 1
    rc, so, err, to = cli(args, stdin=stdin, cwd=cwd, env=env, tty=tty)
    if to:
        # "no exit" must not be a matter of how busy the machine is: the case is run once more with a long limit
        # before it is called a hang
        if os.path.isdir(out):
            shutil.rmtree(out, ignore_errors=True)
        elif os.path.exists(out):
            os.remove(out)
        rc, so, err, to = cli(args, stdin=stdin, cwd=cwd, env=env, tty=tty, timeout=600)
    cmdline = ("RAYON_NUM_THREADS=%s " % env["RAYON_NUM_THREADS"] if env else "") + "kmertools " + " ".join(args) + (" [stderr on a terminal]" if tty else "") + (" [run in the directory of the input]" if cwd else "") + (" on records %r" % (recs,) if len(recs) <= 12 else " on %d records %r..." % (len(recs), recs[:6]))
    if to:
        return ("hang", "%s: no exit within %d s, and none within 600 s when run again" % (cmdline, TIMEOUT))
    has_bad = any(pm.cls(b) is None for r in recs for b in r)
    if name == "cgr" and has_bad:
        # whole-sequence CGR may refuse records with non-nucleotide bytes; it must not hand out coordinates for them
        if rc == 0 and not err.strip():
            rows = lines_of(read(out)) or []
            if len(rows) >= len(recs):
                return ("bad-record-got-row", "%s: completed with %d rows although a record has a non-nucleotide byte" % (cmdline, len(rows)))
        return None
    if rc != 0 or b"panicked" in err:
        return ("crash", "%s: exit %d, stderr %r" % (cmdline, rc, err[-400:]))
    if name.startswith("oligo"):
        rows = lines_of(read(out))
        if oheader:
            if not rows or rows[0].split(odelim) != [n.encode() for n in pm.header_names(kk)]:
                return ("header-line", "%s: first line is not the header in the requested delimiter" % cmdline)
            rows = rows[1:]
        if rows is None or len(rows) != len(recs):
            return ("row-count", "%s: %s rows for %d records" % (cmdline, None if rows is None else len(rows), len(recs)))
        for i, (row, r) in enumerate(zip(rows, recs)):
            v, tt = pm.oligo(r, kk)
            toks = row.split(odelim)
            if len(toks) != len(v):
                return ("row-length", "%s: row %d has %d values in the requested delimiter, expected %d" % (cmdline, i, len(toks), len(v)))
            for c, tok in enumerate(toks):
                val = float(tok)
                if (val != v[c]) if name == "oligo-c" else (not pm.close(val, v[c], tt)):
                    return ("row-value", "%s: row %d column %d = %r, model %d/%d" % (cmdline, i, c, tok, v[c], tt))
    elif name == "cgr":
        rows = lines_of(read(out))
        if rows is None or len(rows) != len(recs):
            return ("row-count", "%s: %s rows for %d records" % (cmdline, None if rows is None else len(rows), len(recs)))
        for i, (row, r) in enumerate(zip(rows, recs)):
            pts = row.split(b" ") if row else []
            exp = pm.cgr(r, 16)
            if len(pts) != len(exp):
                return ("row-length", "%s: row %d has %d points for %d bases" % (cmdline, i, len(pts), len(exp)))
            for ptxt, (ex, ey) in zip(pts, exp):
                x, y = ptxt.strip(b"()").split(b",")
                if float(x) != float(ex) or float(y) != float(ey):
                    return ("row-value", "%s: row %d point %r, model (%s,%s)" % (cmdline, i, ptxt, float(ex), float(ey)))
    elif name == "kcgr":
        rows = lines_of(read(out))
        if rows is None or len(rows) != len(recs):
            return ("row-count", "%s: %s rows for %d records" % (cmdline, None if rows is None else len(rows), len(recs)))
        for i, (row, r) in enumerate(zip(rows, recs)):
            v, tt = pm.oligo(r, kk)
            trip = row.split(b" ")
            if len(trip) != len(v):
                return ("row-length", "%s: row %d has %d triples" % (cmdline, i, len(trip)))
            for c, tr in enumerate(trip):
                f = float(tr.strip(b"()").split(b",")[2])
                if not pm.close(f, v[c], tt):
                    return ("row-value", "%s: row %d column %d frequency %r, model %d/%d" % (cmdline, i, c, f, v[c], tt))
    elif name == "cov":
        rows = lines_of(read(os.path.join(out, "kmers.vectors")))
        if rows is None or len(rows) != len(recs):
            return ("row-count", "%s: %s rows in kmers.vectors for %d records" % (cmdline, None if rows is None else len(rows), len(recs)))
        table = pm.counts(recs, kk)
        for i, (row, r) in enumerate(zip(rows, recs)):
            h, tt = pm.histogram(r, kk, table, 5, 5)
            toks = row.split(b" ")
            if len(toks) != 5 or any(not pm.close(float(x), h[j], tt) for j, x in enumerate(toks)):
                return ("row-value", "%s: row %d = %r, model %r of %d" % (cmdline, i, row, h, tt))
    elif name.startswith("s2m"):
        rows = lines_of(read(out))
        if rows is None or len(rows) != len(recs):
            return ("row-count", "%s: %s lines for %d records" % (cmdline, None if rows is None else len(rows), len(recs)))
        exp = []
        for i, r in enumerate(recs):
            w = ww or max(len(r), kk)
            exp.append("\t".join(["r%d" % i] + ["%s:%d-%d" % (pm.text_of(v, kk), s, e) for v, s, e in pm.runs(r, w, kk)]).encode())
        got = sorted(x.rstrip(b"\t") for x in rows)
        if got != sorted(exp):
            key = "placeholder-rendered" if any(b"T" * kk in g for g in got) and not any(b"T" * kk in e for e in exp) else "row-value"
            return (key, "%s: lines %r, model %r" % (cmdline, got, sorted(exp)))
    elif name.startswith("m2s"):
        got = m2s_canon(read(out))
        exp = {}
        for i, r in enumerate(recs):
            w = ww or max(len(r), kk)
            for v, s, e in pm.runs(r, w, kk):
                exp.setdefault(pm.text_of(v, kk).encode(), []).append(b'"r%d", %d, %d' % (i, s, e))
        exp = {k: sorted(v) for k, v in exp.items()}
        if got != exp:
            key = "placeholder-rendered" if got and isinstance(got, dict) and (b"T" * kk) in got and (b"T" * kk) not in exp else "row-value"
            return (key, "%s: %r, model %r" % (cmdline, got, exp))
    else:
        got = parse_counts(read(os.path.join(out, "kmers.counts")), False, kk)
        if got is None or got != pm.counts(recs, kk):
            return ("row-value", "%s: kmers.counts %r, model %r" % (cmdline, got, pm.counts(recs, kk)))
        left = sorted(f for f in os.listdir(out) if f.startswith("temp_"))
        if left:
            return ("temp-file-survives", "%s: directory still holds %s" % (cmdline, left))
    return None


def c16(tier):
    rep = Rep()
    cases = []
    for variant in C16_VARIANTS:
        name, kk, ww = variant
        sh = shapes_for(kk, ww)
        # the two 100 000-base shapes only as single records and after an ordinary one (the Python model is slow on them)
        long_names = [n for n in sorted(sh) if n.endswith("000")]
        names = [n for n in sorted(sh) if n not in long_names]
        lists = [()] + [(a,) for a in names] + [(a, b) for a in names for b in names] + [(a,) for a in long_names] + [("ordinary", a) for a in long_names]
        if tier == "thorough":
            lists += [(a, b, c) for a in names for b in names for c in names]
        for l in lists:
            for t in (1, 4):
                cases.append((variant, l, t, True))
            if len(l) <= 1 or tier == "thorough":
                cases.append((variant, l, 0, True))
            # the same input without its final line feed (the last record then ends at end of file)
            if l and name in ("oligo", "oligo-c", "oligo-stdin", "cgr", "kcgr", "cov", "s2m-w9", "m2s-w0", "ctr"):
                cases.append((variant, l, 2, False))
                if l[-1] == "empty" and len(l) >= 2:
                    cases.append((variant, l, 3, "bare"))
            # the same records in a FASTQ file (records without bases cannot be written there), wrapped and not
            if l and len(l) <= 2 and "empty" not in l and name != "oligo-stdin" and not any(n.endswith("000") for n in l):
                cases.append((variant, l, 4, "fqw"))
                if len(l) == 1:
                    cases.append((variant, l, 1, "fq"))

    # record counts at and around the powers of two a writer could plausibly chunk its work by (and the 10 000 of
    # the progress messages): degenerate records only, three shapes in rotation
    counts = [1023, 1024, 1025, 4095, 4096, 4097, 8192, 99, 100, 101, 999, 1000, 1001, 10000] + ([2048, 9999, 10001, 16384, 65535, 65536, 65537, 100000] if tier == "thorough" else [])
    for variant in C16_VARIANTS:
        names = sorted(shapes_for(variant[1], variant[2]))
        degenerate = [n for n in names if n != "ordinary" and not n.endswith("000")][:6]
        for ci, n in enumerate(counts):
            rot = tuple(degenerate[(ci + j) % len(degenerate)] for j in range(3))
            for t in ((1, 4) if tier == "thorough" else (4,)):
                cases.append((variant, ("*%d" % n,) + rot, t, True))

    def do(case):
        variant, l, t, final_nl = case
        sh = shapes_for(variant[1], variant[2])
        if l and l[0].startswith("*"):
            recs = [sh[l[1 + i % (len(l) - 1)]] for i in range(int(l[0][1:]))]
        else:
            recs = [sh[x] for x in l]
        wd = fresh_dir("c16")
        try:
            res = c16_check(variant, recs, t, wd, final_nl)
        except Exception as e:  # unparsable output etc.
            res = ("unparsable-output", "%s %r threads=%d: %s: %s" % (variant[0], recs, t, type(e).__name__, e))
        rep.ev(1, 1)
        rep.outcome("%s:%s" % (variant[0], "ok" if res is None else res[0]))
        if res is not None:
            rep.violation(res[0], sum(len(r) + 1 for r in recs[:50]) + 10 * len(recs), res[1] + ("" if final_nl is True else " [input without final line feed]" if final_nl is False else " [FASTQ input]" if final_nl == "fq" else " [FASTQ input wrapped at 3]" if final_nl == "fqw" else " [input ends with the header text of a record without bases]"), "c16", {"variant": list(variant), "shapes": list(l), "t": t, "final_newline": final_nl})
        shutil.rmtree(wd, ignore_errors=True)

    pmap(do, cases)
    rep.count("c16.cli_runs", len(cases))
    rep.sample("kmertools cov -i in.fa -o out -k 7 -s 5 -c 5 -t 4 on records ['' , 'NNNNNNN']: exit 0, two all-zero rows")
    rep.sample("kmertools min -i in.fa -o out -m 7 -w 0 -p s2m -t 1 on records ['A']: exit 0, one line holding the id only")
    rep.sample("kmertools comp oligo -i - -o out -k 3 on an empty stdin: exit 0, empty output")
    rep.note("C16: every list of 0..=2 (thorough 3) records over 10 shapes (empty, 1 base, k-1, k, k+1 or w-1/w, all-N, N first/middle/last, ordinary) x 11 subcommand variants x threads (1,4) on the release binary; oracle: exit 0 within 20 s, one row per record equal to the model's, no placeholder rendered; whole-sequence CGR may refuse records with non-nucleotide bytes")
    return rep.done()


# ------------------------------------------------------------------------------------------------ C17

UNORDERED = ("kmers.counts", "s2m.txt", "m2s.txt")


def canon_file(name, data):
    base = os.path.basename(name)
    if base.startswith("temp_kmers"):
        # a temp chunk file is only ever read by the run that has just rewritten it, so its stale content cannot
        # influence any later run: its presence (name) is the state
        return "present"
    if base in UNORDERED:
        if base == "m2s.txt":
            c = m2s_canon(data)
            return hashlib.sha1(repr(sorted(c.items()) if isinstance(c, dict) else c).encode()).hexdigest()[:16]
        return hashlib.sha1(b"\n".join(sorted(lines_of(data)))).hexdigest()[:16]
    return hashlib.sha1(data).hexdigest()[:16]


def canon_dir(d):
    items = []
    for root, _, files in os.walk(d):
        for f in files:
            p = os.path.join(root, f)
            rel = os.path.relpath(p, d)
            items.append((rel, canon_file(rel, read(p))))
    return tuple(sorted(items))


def c17_runs(inputs):
    """the alphabet: name -> (function(location dir) executing the real run, documented result files)"""
    small, big, clean_s, clean_b = inputs["small"], inputs["big"], inputs["clean_s"], inputs["clean_b"]
    tiny, none = inputs["tiny"], inputs["none"]
    R = {}

    def cli_run(args, relative=False):
        def f(loc):
            if relative:
                # the location is the current directory and is named relatively
                a = [x.replace("@/", "./").replace("@", ".") for x in args]
                return cli(a, timeout=60, cwd=loc)
            a = [x.replace("@", loc) for x in args]
            return cli(a, timeout=60)
        return f

    def lib_run(kind, **kw):
        def f(loc):
            k2 = {k: (v.replace("@", loc) if isinstance(v, str) else v) for k, v in kw.items()}
            return lib(kind, **k2)
        return f

    groups = {}
    # oligo output file
    groups["oligo"] = {
        "oligo small k3": (cli_run(["comp", "oligo", "-i", small, "-o", "@/vec.txt", "-k", "3", "-t", "2"]), ["vec.txt"]),
        "oligo big k3": (cli_run(["comp", "oligo", "-i", big, "-o", "@/vec.txt", "-k", "3", "-t", "4"]), ["vec.txt"]),
        "oligo small k5 -H": (cli_run(["comp", "oligo", "-i", small, "-o", "@/vec.txt", "-k", "5", "-H", "-t", "1"]), ["vec.txt"]),
        "oligo big k3 -c": (cli_run(["comp", "oligo", "-i", big, "-o", "@/vec.txt", "-k", "3", "-c", "-t", "3"]), ["vec.txt"]),
        "oligo small k3 -c csv": (cli_run(["comp", "oligo", "-i", small, "-o", "@/vec.txt", "-k", "3", "-c", "-p", "csv"]), ["vec.txt"]),
        "oligo big k4 lib mmap": (lib_run("oligo", **{"in": big, "out": "@/vec.txt", "k": 4, "writer": "mmap", "threads": 3}), ["vec.txt"]),
        # the same job at other memory ceilings and thread counts (many batches): same bytes as "oligo big k3 -c"
        "oligo big k3 -c lib 1 thread 60-base batches": (lib_run("oligo", **{"in": big, "out": "@/vec.txt", "k": 3, "counts": 1, "writer": "batch", "threads": 1, "memory": 60}), ["vec.txt"]),
        "oligo big k3 -c lib 4 threads 150-base batches": (lib_run("oligo", **{"in": big, "out": "@/vec.txt", "k": 3, "counts": 1, "writer": "batch", "threads": 4, "memory": 150}), ["vec.txt"]),
        # the same records under a name without a recognised suffix (the batched path looks at the first byte instead)
        "oligo small.txt k3 -c -H": (cli_run(["comp", "oligo", "-i", inputs["small_txt"], "-o", "@/vec.txt", "-k", "3", "-c", "-H"]), ["vec.txt"]),
        "oligo small k3 (relative output path)": (cli_run(["comp", "oligo", "-i", small, "-o", "@/vec.txt", "-k", "3", "-t", "2"], relative=True), ["vec.txt"]),
        "oligo no records": (cli_run(["comp", "oligo", "-i", none, "-o", "@/vec.txt", "-k", "3"]), ["vec.txt"]),
        "oligo no records -c": (cli_run(["comp", "oligo", "-i", none, "-o", "@/vec.txt", "-k", "3", "-c"]), ["vec.txt"]),
    }
    groups["cgr"] = {
        "cgr small": (cli_run(["comp", "cgr", "-i", clean_s, "-o", "@/vec.txt", "-v", "16", "-t", "2"]), ["vec.txt"]),
        "cgr big": (cli_run(["comp", "cgr", "-i", clean_b, "-o", "@/vec.txt", "-t", "4"]), ["vec.txt"]),
        "kcgr small k3": (cli_run(["comp", "cgr", "-i", small, "-o", "@/vec.txt", "-k", "3", "-v", "16"]), ["vec.txt"]),
        "kcgr big k4 -c": (cli_run(["comp", "cgr", "-i", big, "-o", "@/vec.txt", "-k", "4", "-c", "-t", "2"]), ["vec.txt"]),
        "oligo small k3 (same path)": (cli_run(["comp", "oligo", "-i", small, "-o", "@/vec.txt", "-k", "3"]), ["vec.txt"]),
        "kcgr big k4 -c lib 1 thread 60-base batches": (lib_run("kcgr", **{"in": big, "out": "@/vec.txt", "k": 4, "vecsize": 16, "counts": 1, "threads": 1, "memory": 60}), ["vec.txt"]),
        "cgr big lib 3 threads 30-base batches": (lib_run("cgr", **{"in": clean_b, "out": "@/vec.txt", "vecsize": 1, "threads": 3, "memory": 30}), ["vec.txt"]),
        "cgr no records": (cli_run(["comp", "cgr", "-i", none, "-o", "@/vec.txt"]), ["vec.txt"]),
        "kcgr no records": (cli_run(["comp", "cgr", "-i", none, "-o", "@/vec.txt", "-k", "3"]), ["vec.txt"]),
    }
    groups["min"] = {
        "s2m small w0": (cli_run(["min", "-i", small, "-o", "@/s2m.txt", "-m", "7", "-t", "2"]), ["s2m.txt"]),
        "s2m big w12": (cli_run(["min", "-i", big, "-o", "@/s2m.txt", "-m", "7", "-w", "12", "-t", "4"]), ["s2m.txt"]),
        "m2s small w0": (cli_run(["min", "-i", small, "-o", "@/m2s.txt", "-m", "7", "-p", "m2s", "-t", "2"]), ["m2s.txt"]),
        "m2s big w12": (cli_run(["min", "-i", big, "-o", "@/m2s.txt", "-m", "8", "-w", "12", "-p", "m2s", "-t", "3"]), ["m2s.txt"]),
        # runs whose listing is empty: records shorter than m, and no records at all
        "m2s tiny (no minimiser)": (cli_run(["min", "-i", tiny, "-o", "@/m2s.txt", "-m", "12", "-p", "m2s", "-t", "2"]), ["m2s.txt"]),
        "s2m tiny (ids only)": (cli_run(["min", "-i", tiny, "-o", "@/s2m.txt", "-m", "12", "-t", "2"]), ["s2m.txt"]),
        "m2s no records": (cli_run(["min", "-i", none, "-o", "@/m2s.txt", "-m", "7", "-p", "m2s"]), ["m2s.txt"]),
        "s2m no records": (cli_run(["min", "-i", none, "-o", "@/s2m.txt", "-m", "7"]), ["s2m.txt"]),
    }
    groups["ctr-cov"] = {
        "ctr small k10 (cli)": (cli_run(["ctr", "-i", small, "-o", "@", "-k", "10", "-t", "2"]), ["kmers.counts"]),
        "ctr big k10 many chunks keep temp": (lib_run("ctr", **{"in": big, "out": "@", "k": 10, "memory": "1e-7", "threads": 1, "delete": 0}), ["kmers.counts"]),
        "ctr small k10 few chunks keep temp": (lib_run("ctr", **{"in": small, "out": "@", "k": 10, "memory": "4e-7", "threads": 1, "delete": 0}), ["kmers.counts"]),
        "ctr big k12 acgt (cli)": (cli_run(["ctr", "-i", big, "-o", "@", "-k", "12", "--acgt", "-t", "4"]), ["kmers.counts"]),
        "ctr small k10 tiny ceiling delete": (lib_run("ctr", **{"in": small, "out": "@", "k": 10, "memory": "2e-8", "threads": 4, "delete": 1}), ["kmers.counts"]),
        "cov small k7 (cli)": (cli_run(["cov", "-i", small, "-o", "@", "-k", "7", "-s", "5", "-c", "5", "-t", "2"]), ["kmers.counts", "kmers.vectors"]),
        "cov big k7 counts (cli)": (cli_run(["cov", "-i", big, "-o", "@", "-k", "7", "-s", "5", "-c", "6", "--counts", "-t", "3"]), ["kmers.counts", "kmers.vectors"]),
        "cov small alt=big k9": (cli_run(["cov", "-i", small, "-a", big, "-o", "@", "-k", "9", "-s", "5", "-c", "5"]), ["kmers.counts", "kmers.vectors"]),
        "cov small k9": (cli_run(["cov", "-i", small, "-o", "@", "-k", "9", "-s", "5", "-c", "5", "-t", "2"]), ["kmers.counts", "kmers.vectors"]),
        "cov small k9 -m 128": (cli_run(["cov", "-i", small, "-o", "@", "-k", "9", "-s", "5", "-c", "5", "-m", "128"]), ["kmers.counts", "kmers.vectors"]),
        "cov small alt=clean k9": (cli_run(["cov", "-i", small, "-a", clean_b, "-o", "@", "-k", "9", "-s", "5", "-c", "5"]), ["kmers.counts", "kmers.vectors"]),
        "ctr tiny k12 (no k-mer)": (cli_run(["ctr", "-i", tiny, "-o", "@", "-k", "12", "-t", "2"]), ["kmers.counts"]),
        "cov no records k7": (cli_run(["cov", "-i", none, "-o", "@", "-k", "7"]), ["kmers.counts", "kmers.vectors"]),
        "cov small k9 (relative output directory)": (cli_run(["cov", "-i", small, "-o", "@", "-k", "9", "-s", "5", "-c", "5", "-t", "2"], relative=True), ["kmers.counts", "kmers.vectors"]),
        "ctr small k10 (output directory with a trailing slash)": (cli_run(["ctr", "-i", small, "-o", "@/", "-k", "10", "-t", "2"]), ["kmers.counts"]),
    }
    return groups


# runs that differ only in thread count / memory ceiling: their results in fresh locations must be equal
C17_EQUIVALENT = [
    ["oligo big k3 -c", "oligo big k3 -c lib 1 thread 60-base batches", "oligo big k3 -c lib 4 threads 150-base batches"],
    ["kcgr big k4 -c", "kcgr big k4 -c lib 1 thread 60-base batches"],
    ["cgr big", "cgr big lib 3 threads 30-base batches"],
    ["ctr small k10 (cli)", "ctr small k10 few chunks keep temp", "ctr small k10 tiny ceiling delete"],
    ["cov small k9", "cov small k9 -m 128", "cov small k9 (relative output directory)"],
    ["oligo small k3", "oligo small k3 (relative output path)"],
    ["ctr small k10 (cli)", "ctr small k10 (output directory with a trailing slash)"],
]
# (the "counts" rows of small.txt are also those of small.fa; there is no run of small.fa with -c -H to pair it with)


def c17(tier):
    rep = Rep()
    d = fresh_dir("c17in")
    recs_small = lcg_records(3, 5, 30, 45, True)
    recs_big = lcg_records(11, 9, 35, 70, True)
    inputs = {}
    for name, recs in (("small", recs_small), ("big", recs_big), ("clean_s", lcg_records(2, 3, 5, 12, False)), ("clean_b", lcg_records(9, 4, 10, 40, False)),
                       ("tiny", [b"ACGTACGTA", b"ACGTACGTACG", b"NNNNN"]), ("none", [])):
        inputs[name] = write_inputs(d, name, recs)["fa"]
    inputs["small_txt"] = os.path.join(d, "small.txt")
    shutil.copy(inputs["small"], inputs["small_txt"])
    groups = c17_runs(inputs)
    max_depth = 4 if tier == "thorough" else 3
    total_states = 0
    total_trans = 0
    for gname, runs in groups.items():
        # result of every run executed alone in a fresh location
        fresh = {}
        for rname, (fn, results) in runs.items():
            loc = fresh_dir("fresh")
            rc, so, err, to = fn(loc)
            if rc != 0 or to:
                rep.violation("run-failed", 1, "%s in a fresh location: exit %s stderr %r" % (rname, rc, err[-300:]), "c17", {"group": gname, "history": [rname]})
            fresh[rname] = {f: canon_file(f, read(os.path.join(loc, f)) or b"") if os.path.exists(os.path.join(loc, f)) else None for f in results}
            rep.ev(1, 1)
        for cls in C17_EQUIVALENT:
            if cls[0] in fresh:
                for other in cls[1:]:
                    rep.ev(1, 1)
                    for f in runs[cls[0]][1]:
                        if fresh[other].get(f) != fresh[cls[0]][f]:
                            rep.violation("ceiling-or-threads-change-the-result", 1, "in fresh locations, %r and %r (same job, other memory ceiling / thread count) leave different %s" % (cls[0], other, f), "c17", {"group": gname, "history": [other]})
        # initial states: empty location, and a location pre-filled with longer garbage under every documented name
        states = {}  # canon -> (saved dir, history)
        init_empty = fresh_dir("st")
        init_garbage = fresh_dir("st")
        for f in ("vec.txt", "s2m.txt", "m2s.txt", "kmers.counts", "kmers.vectors", "temp_kmers.part_0_chunk_0", "temp_kmers.part_1_chunk_7", "temp_kmers.part_40_chunk_0"):
            if gname == "ctr-cov" or not f.startswith(("kmers", "temp")):
                open(os.path.join(init_garbage, f), "wb").write(b"123\t45\n" * 4000 if f.startswith(("kmers.c", "temp")) else b"0.5 0.5 garbage from an earlier, longer run\n" * 3000)
        # a third initial state: the documented output files are symbolic links to (longer) files kept elsewhere
        init_links = fresh_dir("st")
        if gname != "ctr-cov":
            os.makedirs(os.path.join(init_links, "store"))
            for f in ("vec.txt", "s2m.txt", "m2s.txt"):
                open(os.path.join(init_links, "store", f), "wb").write(b"0.5 0.5 an earlier, longer result kept in another directory\n" * 3000)
                os.symlink(os.path.join("store", f), os.path.join(init_links, f))
        frontier = []
        for loc, hist in ((init_empty, ["<empty>"]), (init_garbage, ["<garbage>"])) + (((init_links, ["<outputs are symlinks to longer files>"]),) if gname != "ctr-cov" else ()):
            c = canon_dir(loc)
            states[c] = (loc, hist)
            frontier.append(c)
        depth = 0
        emptied = False
        group_depth = max_depth - 1 if gname == "ctr-cov" else max_depth
        while frontier and depth < group_depth:
            depth += 1
            jobs = [(c, rname) for c in frontier for rname in runs]

            def step(job):
                c, rname = job
                src, hist = states[c]
                fn, results = runs[rname]
                loc = fresh_dir("tr")
                shutil.rmtree(loc)
                shutil.copytree(src, loc, symlinks=True)
                rc, so, err, to = fn(loc)
                rep.ev(1, 1)
                h2 = hist + [rname]
                if rc != 0 or to:
                    rep.violation("run-failed", len(h2), "history %r: last run exit %s (timeout=%s) stderr %r" % (h2, rc, to, err[-300:]), "c17", {"group": gname, "history": h2})
                else:
                    for f in results:
                        p = os.path.join(loc, f)
                        got = canon_file(f, read(p)) if os.path.exists(p) else None
                        if got != fresh[rname][f]:
                            data = read(p)
                            rep.violation("stale-state-leaks", len(h2), "history %r into one location: result file %s (%s bytes) differs from what the last run alone produces in a fresh location" % (
                                h2, f, None if data is None else len(data)), "c17", {"group": gname, "history": h2})
                return (canon_dir(loc), loc, h2)

            new_frontier = []
            for c2, loc, h2 in pmap(step, jobs):
                total_trans += 1
                if c2 not in states:
                    states[c2] = (loc, h2)
                    new_frontier.append(c2)
                else:
                    shutil.rmtree(loc, ignore_errors=True)
            frontier = new_frontier
            if not frontier:
                emptied = True
        total_states += len(states)
        rep.count("c17.states[%s]" % gname, len(states))
        rep.count("c17.depth_reached[%s]" % gname, depth)
        rep.count("c17.frontier_emptied[%s]" % gname, 1 if emptied else 0)
        rep.outcome("%s: %d states, depth %d, fixpoint=%s" % (gname, len(states), depth, emptied))
        for c, (loc, _) in states.items():
            shutil.rmtree(loc, ignore_errors=True)
    rep.count("hist.states", total_states)
    rep.count("hist.transitions", total_trans)
    rep.count("hist.traces", total_trans)
    rep.sample("history [<garbage>, 'oligo big k3', 'oligo small k5 -H'] into one path: vec.txt must equal 'oligo small k5 -H' run alone")
    rep.sample("history ['ctr big k10 many chunks keep temp', 'ctr small k10 (cli)', 'cov small k7 (cli)'] into one directory (stale temp files of a larger grid)")
    rep.note("C17: breadth-first search over canonical on-disk states (sorted (name, content hash); unordered outputs hashed as sorted line multisets) with the real subcommands as transitions, from the empty location and from a location pre-filled with longer garbage under every documented name; 4 output kinds (oligo file, cgr file, minimiser listings, counter/coverage directory incl. library runs with tiny ceilings that leave temp files of larger grids behind)")
    return rep.done()


# ------------------------------------------------------------------------------------------------ C03 / C04 observation points

def c_sink_fifo(tier, kinds):
    """what the output path names is part of the environment: a regular file, or a FIFO whose reader is slower than the
    writers (`-o >(gzip > x.gz)`, `-o /dev/stdout | ...`, mkfifo). Records long enough for result lines of hundreds of
    KiB, 8 threads, the reader starting a second late; oracle = the canonical content of the one-thread run into a
    regular file. Free-running (one execution per kind and attempt)."""
    import time
    rep = Rep()
    d = fresh_dir("fifo")
    x = 20250917
    recs = []
    for i in range(24):
        r = bytearray()
        for _ in range(40_000 if i % 3 else 9_000):
            x = (x * 6364136223846793005 + 1442695040888963407) % (1 << 64)
            r.append(b"ACGT"[(x >> 40) % 4])
        recs.append(bytes(r))
    inp = os.path.join(d, "in.fa")
    open(inp, "wb").write(fasta_bytes(recs))
    ARGS = {
        "s2m": ["min", "-m", "7", "-w", "8", "-p", "s2m"], "m2s": ["min", "-m", "7", "-w", "8", "-p", "m2s"],
        "oligo-c": ["comp", "oligo", "-c", "-k", "3"], "cgr": ["comp", "cgr", "-v", "16"], "kcgr": ["comp", "cgr", "-k", "3", "-v", "16"],
    }

    def canon(kind, data):
        if data is None:
            return None
        if kind == "m2s":
            return m2s_canon(data)
        if kind == "s2m":
            return sorted(lines_of(data) or [])
        return data

    def do(job):
        kind, attempt = job
        wd = fresh_dir("fifo")
        ref = os.path.join(wd, "ref.txt")
        a = ARGS[kind]
        base = a[:2] if a[0] == "comp" else a[:1]
        rest = a[len(base):]
        rc0, so, err0, to0 = cli(base + ["-i", inp, "-o", ref] + rest + ["-t", "1"], timeout=300)
        if rc0 != 0 or read(ref) is None:
            raise fe.Machinery("c_sink_fifo: the reference run of %s failed: exit %s %r" % (kind, rc0, err0[-200:]))
        fifo = os.path.join(wd, "out.fifo")
        os.mkfifo(fifo)
        got = []

        done = threading.Event()

        def reader():
            # opened without blocking, so that a program that never opens the FIFO (one that writes somewhere else and
            # renames, say) cannot hold this thread; end of data = the writer has closed and the program has ended
            time.sleep(1.0 + 0.5 * attempt)
            fd = os.open(fifo, os.O_RDONLY | os.O_NONBLOCK)
            try:
                while True:
                    try:
                        b = os.read(fd, 1 << 16)
                    except BlockingIOError:
                        time.sleep(0.002)
                        continue
                    if b:
                        got.append(b)
                        if len(got) < 200:
                            time.sleep(0.002)  # a consumer slower than the writers
                    elif done.is_set():
                        break
                    else:
                        time.sleep(0.005)
            finally:
                os.close(fd)

        th = threading.Thread(target=reader, daemon=True)
        th.start()
        rc, so, err, to = cli(base + ["-i", inp, "-o", fifo] + rest + ["-t", "8"], timeout=300)
        done.set()
        th.join(60)
        rep.ev(1, 1)
        data = b"".join(got)
        # what the properties fix is the content of the result; that a FIFO is accepted as output at all is not among
        # them: a run that fails loudly, or that delivers nothing through the FIFO, is no verdict
        rep.outcome("%s: %s" % (kind, "content through the FIFO" if data else "nothing through the FIFO (exit %s)" % rc))
        if rc == 0 and not to and data and canon(kind, data) != canon(kind, read(ref)):
            rep.violation("result-depends-on-kind-of-output-file", 10, "kmertools %s -t 8 writing to a FIFO with a slow reader: exit %s, %d bytes / %d lines; the one-thread run into a regular file: %d bytes / %d lines, canonical contents differ %r" % (
                " ".join(a), rc, len(data), data.count(b"\n"), len(read(ref)), read(ref).count(b"\n"), err[-200:]), "c_sink_fifo", {"kind": kind})
        shutil.rmtree(wd, ignore_errors=True)

    attempts = 1 if tier == "quick" else 3
    pmap(do, [(k, a) for k in kinds for a in range(attempts)])
    rep.count("env.fifo_runs", len(kinds) * attempts)
    rep.sample("kmertools min -p s2m -t 8 -o <fifo read by a slow consumer>: same set of lines as -t 1 into a file")
    return rep.done()


def c17_interrupted(tier):
    """histories in which an earlier run did not finish: the run is cut off at a crash point chosen by a file-size
    limit (RLIMIT_FSIZE: the process is terminated by SIGXFSZ at the first write that would take any of its files
    beyond L bytes), for every L of a geometric ladder; then a complete run of another job goes into the same
    location. Oracle: its documented result files equal those of the same run in a fresh location."""
    import resource
    rep = Rep()
    d = fresh_dir("c17int")
    big = lcg_records(300, 4242, 200, 420, False)
    small = lcg_records(3, 99, 30, 60, False)
    pb = write_inputs(d, "big", big)["fa"]
    ps = write_inputs(d, "small", small)["fa"]
    KINDS = {
        "oligo": (["comp", "oligo"], ["-k", "4", "-t", "2"], None),
        "oligo-c": (["comp", "oligo"], ["-c", "-k", "4", "-t", "2"], None),
        "cgr": (["comp", "cgr"], ["-v", "16", "-t", "2"], None),
        "kcgr": (["comp", "cgr"], ["-k", "4", "-v", "16", "-t", "2"], None),
        "s2m": (["min"], ["-m", "7", "-w", "11", "-p", "s2m", "-t", "2"], None),
        "m2s": (["min"], ["-m", "7", "-w", "11", "-p", "m2s", "-t", "2"], None),
        "ctr": (["ctr"], ["-k", "11", "-t", "4"], ["kmers.counts"]),
        "ctr-acgt": (["ctr"], ["-k", "11", "-a", "-t", "4"], ["kmers.counts"]),
        "cov": (["cov"], ["-k", "11", "-s", "5", "-c", "5", "-t", "4"], ["kmers.counts", "kmers.vectors"]),
    }
    # crash points: a geometric ladder, in quarter-octave steps where the files of these jobs end (the temporary files
    # of the counter are smaller than its table only with several partitions: 4 threads there)
    ladder = [0, 1 << 9, 1 << 11, 1 << 13, 1 << 15] + [q * (1 << i) // 4 for i in range(17, 20) for q in (4, 5, 6, 7)] + [1 << 20]
    if tier == "thorough":
        ladder = sorted(set(ladder + [q * (1 << i) // 4 for i in range(6, 23) for q in (4, 5, 6, 7)]))

    def result(kind, out):
        files = KINDS[kind][2]
        if files is None:
            data = read(out)
            if data is None:
                return None
            return m2s_canon(data) if kind == "m2s" else sorted(lines_of(data) or []) if kind == "s2m" else data
        res = {}
        for f in files:
            data = read(os.path.join(out, f))
            res[f] = None if data is None else (sorted(lines_of(data) or []) if f == "kmers.counts" else data)
        return res

    def invoke(kind, inp, out, limit=None):
        base, rest, _ = KINDS[kind]
        cmd = [fe.CLI] + base + ["-i", inp, "-o", out] + rest
        e = dict(os.environ)
        e.pop("RUST_BACKTRACE", None)

        def pre():
            if limit is not None:
                resource.setrlimit(resource.RLIMIT_FSIZE, (limit, limit))
                resource.setrlimit(resource.RLIMIT_CORE, (0, 0))
        try:
            p = subprocess.run(cmd, stdin=subprocess.DEVNULL, stdout=subprocess.PIPE, stderr=subprocess.PIPE, timeout=120, env=e, preexec_fn=pre)
            return p.returncode, p.stderr
        except subprocess.TimeoutExpired:
            return -9, b"timeout"

    fresh_cache = {}
    lock = threading.Lock()

    def do(job):
        kind, L = job
        wd = fresh_dir("int")
        shared = os.path.join(wd, "shared")
        rc1, err1 = invoke(kind, pb, shared, L)
        rc2, err2 = invoke(kind, ps, shared)
        with lock:
            have = kind in fresh_cache
        if not have:
            fr = os.path.join(wd, "fresh")
            rcf, errf = invoke(kind, ps, fr)
            if rcf != 0:
                raise fe.Machinery("c17_interrupted: the run into a fresh location failed for %s: %r" % (kind, errf[-200:]))
            with lock:
                fresh_cache[kind] = result(kind, fr)
        rep.ev(1, 1)
        rep.outcome("%s: first run under limit -> %s" % (kind, "finished" if rc1 == 0 else "cut off"))
        got = result(kind, shared)
        if rc2 != 0 or got != fresh_cache[kind]:
            rep.violation("depends-on-interrupted-run", 10, "kmertools %s on 3 records into a location where an earlier run (300 records) was cut off by a file-size limit of %d bytes (its exit status %s): exit %s %r; result differs from the same run in a fresh location (%s)" % (
                kind, L, rc1, rc2, err2[-160:], "missing" if got is None else "present"), "c17_interrupted", {"kind": kind, "limit": L})
        shutil.rmtree(wd, ignore_errors=True)

    jobs = [(k, L) for k in KINDS for L in ladder]
    # the reference runs first (one per kind), then the histories
    pmap(do, [(k, ladder[0]) for k in KINDS])
    pmap(do, [j for j in jobs if j[1] != ladder[0]])
    rep.count("c17.interrupted_histories", len(jobs))
    rep.count("c17.crash_points_per_job", len(ladder))
    rep.sample("kmertools ctr on 300 records cut off by RLIMIT_FSIZE = 32768, then ctr on 3 records into the same directory: kmers.counts equals that of a fresh directory")
    return rep.done()


def c12_huge_output(tier):
    """the text of ONE batch beyond 2^31 bytes (thorough tier only: about 5 GB of scratch and 3 minutes): k-mer CGR at
    k = 7 on 10 400 short reads; oracle: the output of the whole file equals the outputs of its two halves, one after
    the other (compared as streams), and has one line per record."""
    rep = Rep()
    if tier != "thorough":
        rep.count("c12.huge_output_runs", 0)
        return rep.done()
    try:
        avail = int([l for l in open("/proc/meminfo") if l.startswith("MemAvailable")][0].split()[1]) // (1 << 20)
    except Exception:
        avail = 0
    if avail < 24:
        rep.note("one batch beyond 2^31 bytes of text not run: %d GiB of memory available" % avail)
        rep.count("c12.huge_output_runs", 0)
        return rep.done()
    d = fresh_dir("c12huge")
    recs = lcg_records(10_400, 31337, 55, 75, False)
    half = len(recs) // 2
    paths = []
    for name, part in (("all", recs), ("a", recs[:half]), ("b", recs[half:])):
        p = os.path.join(d, name + ".fa")
        open(p, "wb").write(fasta_bytes(part))
        paths.append(p)
    outs = [os.path.join(d, n) for n in ("all.out", "a.out", "b.out")]
    for p, o in zip(paths, outs):
        rc, so, err, to = cli(["comp", "cgr", "-i", p, "-o", o, "-k", "7", "-t", "8"], timeout=1800)
        rep.ev(1, 1)
        if rc != 0 or to:
            rep.violation("run-failed", 1, "kmertools comp cgr -k 7 on %s: exit %s %r" % (os.path.basename(p), rc, err[-200:]), "c12_huge_output", {})
            shutil.rmtree(d, ignore_errors=True)
            return rep.done()
    size = os.path.getsize(outs[0])
    rep.count("c12.huge_output_bytes_max", 0)
    rep.d["counters"]["c12.huge_output_bytes_max"] = size
    same = size == os.path.getsize(outs[1]) + os.path.getsize(outs[2])
    lines = 0
    if same:
        with open(outs[0], "rb") as whole:
            for part in outs[1:]:
                with open(part, "rb") as f:
                    while True:
                        b = f.read(1 << 24)
                        if not b:
                            break
                        w = whole.read(len(b))
                        lines += w.count(b"\n")
                        if w != b:
                            same = False
                            break
                if not same:
                    break
    if not same or lines != len(recs):
        rep.violation("huge-batch-output", 1, "kmertools comp cgr -k 7 -t 8 on 10 400 reads: %d bytes (%d lines compared), the two halves give %d + %d bytes: the whole is not the halves one after the other" % (
            size, lines, os.path.getsize(outs[1]), os.path.getsize(outs[2])), "c12_huge_output", {})
    rep.count("c12.huge_output_runs", 3)
    shutil.rmtree(d, ignore_errors=True)
    return rep.done()


def c_source_fifo(tier, kinds):
    """the input as a source that can be read only once (a FIFO fed by another process: `mkfifo in.fa; zcat x.gz > in.fa &`),
    for the commands that read their input in one pass; oracle = the canonical result of the same bytes as a regular file"""
    rep = Rep()
    d = fresh_dir("srcfifo")
    recs = lcg_records(3000, 1717, 30, 200, False)
    data = fasta_bytes(recs)
    regular = os.path.join(d, "reg.fa")
    open(regular, "wb").write(data)
    ARGS = {
        "s2m": ["min", "-m", "7", "-w", "11", "-p", "s2m"], "m2s": ["min", "-m", "7", "-w", "11", "-p", "m2s"], "s2m-w0": ["min", "-m", "7", "-w", "0", "-p", "s2m"],
        "oligo-c": ["comp", "oligo", "-c", "-k", "3"], "cgr": ["comp", "cgr", "-v", "16"], "kcgr": ["comp", "cgr", "-k", "3", "-v", "16"],
    }

    def canon(kind, b):
        if b is None:
            return None
        if kind == "m2s":
            return m2s_canon(b)
        if kind.startswith("s2m"):
            return sorted(lines_of(b) or [])
        return b

    def do(job):
        kind, t = job
        wd = fresh_dir("srcfifo")
        a = ARGS[kind]
        base = a[:2] if a[0] == "comp" else a[:1]
        rest = a[len(base):]
        ref = os.path.join(wd, "ref.txt")
        rc0, so, err0, to0 = cli(base + ["-i", regular, "-o", ref] + rest + ["-t", str(t)], timeout=120)
        if rc0 != 0 or read(ref) is None:
            raise fe.Machinery("c_source_fifo: the run on the regular file failed for %s: exit %s %r" % (kind, rc0, err0[-200:]))
        fifo = os.path.join(wd, "in.fa")
        os.mkfifo(fifo)

        def feeder():
            try:
                with open(fifo, "wb") as f:
                    for i in range(0, len(data), 4096):
                        f.write(data[i:i + 4096])
            except OSError:
                pass

        th = threading.Thread(target=feeder, daemon=True)
        th.start()
        out = os.path.join(wd, "out.txt")
        rc, so, err, to = cli(base + ["-i", fifo, "-o", out] + rest + ["-t", str(t)], timeout=60)
        if to:
            # the reader never came (or came twice): release the feeder
            try:
                fd = os.open(fifo, os.O_RDONLY | os.O_NONBLOCK)
                os.close(fd)
            except OSError:
                pass
        th.join(5)
        rep.ev(1, 1)
        # a run that refuses such an input loudly (or never ends and is killed) is no verdict; one that ends with
        # status 0 has read every record
        rep.outcome("%s: %s" % (kind, "completed" if rc == 0 and not to else "did not complete (exit %s)" % rc))
        if rc == 0 and not to and canon(kind, read(out)) != canon(kind, read(ref)):
            got = read(out)
            rep.violation("result-depends-on-kind-of-input-file", 10, "kmertools %s -t %d reading 3000 records from a FIFO: exit %s%s, %s lines; from a regular file with the same bytes: %d lines %r" % (
                " ".join(a), t, rc, " (no exit within 60 s)" if to else "", None if got is None else got.count(b"\n"), read(ref).count(b"\n"), err[-160:]), "c_source_fifo", {"kind": kind, "t": t})
        shutil.rmtree(wd, ignore_errors=True)

    jobs = [(k, t) for k in kinds for t in (1, 4)]
    pmap(do, jobs)
    rep.count("env.fifo_input_runs", len(jobs))
    rep.sample("kmertools min -p m2s -i <fifo fed by another process>: same table as from a regular file")
    return rep.done()


def c_env_nofile(tier):
    """the number of files a process may have open (RLIMIT_NOFILE: 1024 on most Linux systems, 256 on others, less in
    containers) against a counting job split into hundreds of chunks and partitions: a run that ends with status 0
    has counted exactly; running out of descriptors may only end the run loudly."""
    import resource
    rep = Rep()
    d = fresh_dir("nofile")
    recs = lcg_records(300, 555, 200, 200, False)
    inp = write_inputs(d, "n", recs)["fa"]
    k = 11
    want = pm.counts(recs, k)
    limits = [24, 32, 48, 64, 96, 128, 192, 256, 384, 512, 1024]
    jobs = [(L, t, mem) for L in limits for (t, mem) in ((2, "0.0000015"), (4, "0.000004"))]

    def do(job):
        L, t, mem = job
        wd = fresh_dir("nofile")
        out = os.path.join(wd, "out")
        e = dict(os.environ)
        e.pop("RUST_BACKTRACE", None)
        e["KTMC_SCRATCH"] = fe.scratch_base()

        def pre():
            resource.setrlimit(resource.RLIMIT_NOFILE, (L, L))
        try:
            p = subprocess.run([fe.KTMC, "lib", "ctr", "in=" + inp, "out=" + out, "k=%d" % k, "threads=%d" % t, "memory=" + mem], stdin=subprocess.DEVNULL,
                               stdout=subprocess.PIPE, stderr=subprocess.PIPE, timeout=300, env=e, preexec_fn=pre)
            rc, err = p.returncode, p.stderr
        except subprocess.TimeoutExpired:
            rc, err = -9, b"timeout"
        rep.ev(1, 1)
        rep.outcome("limit %d: %s" % (L, "completed" if rc == 0 else "ended loudly"))
        if rc == 0:
            table = parse_counts(read(os.path.join(out, "kmers.counts")), False, k)
            left = sorted(f for f in os.listdir(out) if f.startswith("temp_")) if os.path.isdir(out) else []
            if table != want or left:
                rep.violation("counts-depend-on-open-file-limit", L, "counting 300 records (k=%d, %d threads, ceiling %s GB: hundreds of chunk files) with at most %d open files: exit 0, %s distinct k-mers (model %d), sum of counts %s (model %d), %d temporary files left" % (
                    k, t, mem, L, None if table is None else len(table), len(want), None if table is None else sum(table.values()), sum(want.values()), len(left)), "c_env_nofile", {"limit": L, "t": t, "memory": mem})
        elif rc == -9:
            rep.violation("hang", L, "counting with at most %d open files did not end within 300 s" % L, "c_env_nofile", {"limit": L})
        shutil.rmtree(wd, ignore_errors=True)

    pmap(do, jobs)
    rep.count("env.open_file_limit_runs", len(jobs))
    rep.sample("ktmc lib ctr (CountComputer count + merge) under RLIMIT_NOFILE = 64 with ~200 chunk files: exit 0 implies the exact table")
    return rep.done()


def c_first_calls(tier):
    """the first calls of a fresh process, made by 8 threads at the same moment (what a routine builds lazily on first
    use is then built under contention): decoding, reverse complement, index maps and both iterators against the
    model. One fresh process per repetition (free-running; 60 repetitions, thorough 600)."""
    rep = Rep()
    n = 60 if tier == "quick" else 600

    def do(i):
        rc, so, err, to = run([fe.KTMC, "lib", "firstcalls", "threads=8", "salt=%d" % i], timeout=60, env={"KTMC_SCRATCH": fe.scratch_base()})
        rep.ev(1, 1)
        if rc == 1:
            rep.violation("first-calls-under-contention", 5, "fresh process %d, 8 threads making the first calls at once: %s" % (i, so.decode("utf-8", "replace")[:600]), "c_first_calls", {"salt": i})
        elif rc != 0:
            raise fe.Machinery("ktmc lib firstcalls failed: exit %s %r" % (rc, err[-300:]))

    pmap(do, range(n), workers=4)
    rep.count("env.first_call_processes", n)
    rep.sample("8 threads released by a barrier make the first rev_comp / numeric_to_kmer / kmer_pos_maps calls of a fresh process")
    return rep.done()


def c17_near_inputs(tier):
    """histories of two runs whose inputs are close relatives: the second input has the ids of two records exchanged,
    one base substituted (every length unchanged), two records exchanged, or the case of a record changed. Whatever a
    run decides from sizes, counts, names or key sets of what lies at the output location is the same for both inputs.
    Oracle: the documented result files after the second run equal those of the second run in a fresh location."""
    rep = Rep()
    d = fresh_dir("c17near")
    base = lcg_records(12, 2024, 60, 90, False)
    ids = [b"s%02d" % i for i in range(len(base))]

    def variant(kind):
        recs, names = list(base), list(ids)
        if kind == "ids-exchanged":
            names[2], names[7] = names[7], names[2]
        elif kind == "one-base-substituted":
            r = bytearray(recs[5])
            r[33] = ord("A") if r[33] != ord("A") else ord("C")
            recs[5] = bytes(r)
        elif kind == "records-exchanged":
            recs[1], recs[9] = recs[9], recs[1]
            names[1], names[9] = names[9], names[1]
        elif kind == "case-changed":
            recs[4] = recs[4].lower()
        elif kind == "same-size-one-record-fewer":
            # two records become one; the bytes of the vanished header line come back as bases: the file keeps its size
            def size(rs, ns):
                return sum(len(b">%s desc %d\n%s\n" % (ns[i], i, r)) for i, r in enumerate(rs))
            recs[3] = recs[3] + recs[4]
            del recs[4]
            del names[4]
            recs[3] = recs[3] + (b"ACGTTGCAAGCTTAGG" * 4)[:size(list(base), list(ids)) - size(recs, names)]
        return recs, names

    paths = {"base": write_inputs(d, "base", base, ids)["fa"]}
    for v in ("ids-exchanged", "one-base-substituted", "records-exchanged", "case-changed", "same-size-one-record-fewer"):
        recs, names = variant(v)
        sub = os.path.join(d, v)
        os.makedirs(sub)
        paths[v] = write_inputs(sub, "base", recs, names)["fa"]  # the same file name in another directory
    KINDS = {
        "oligo": (["comp", "oligo"], ["-k", "4", "-t", "2"], None), "oligo-c": (["comp", "oligo"], ["-c", "-k", "4", "-t", "2"], None),
        "cgr": (["comp", "cgr"], ["-v", "16", "-t", "2"], None), "kcgr": (["comp", "cgr"], ["-k", "4", "-v", "16", "-t", "2"], None),
        "s2m": (["min"], ["-m", "10", "-p", "s2m", "-t", "1"], None), "m2s": (["min"], ["-m", "10", "-p", "m2s", "-t", "1"], None),
        "m2s-w31": (["min"], ["-m", "10", "-w", "31", "-p", "m2s", "-t", "2"], None),
        "ctr": (["ctr"], ["-k", "11", "-t", "2"], ["kmers.counts"]), "cov": (["cov"], ["-k", "11", "-s", "5", "-c", "5", "-t", "2"], ["kmers.counts", "kmers.vectors"]),
    }

    def result(kind, out):
        files = KINDS[kind][2]
        if files is None:
            data = read(out)
            if data is None:
                return None
            return m2s_canon(data) if kind.startswith("m2s") else sorted(lines_of(data) or []) if kind == "s2m" else data
        res = {}
        for f in files:
            data = read(os.path.join(out, f))
            res[f] = None if data is None else (sorted(lines_of(data) or []) if f == "kmers.counts" else data)
        return res

    def invoke(kind, inp, out):
        b, rest, _ = KINDS[kind]
        return cli(b + ["-i", inp, "-o", out] + rest, timeout=120)

    def do(job):
        kind, v, order = job
        first, second = ("base", v) if order == 0 else (v, "base")
        wd = fresh_dir("near")
        shared, fresh = os.path.join(wd, "shared"), os.path.join(wd, "fresh")
        if order == 2:
            # the input keeps its PATH between the runs and gets the other content (a file regenerated in place)
            first, second = "base", v
            here = os.path.join(wd, "reads.fa")
            shutil.copy(paths[first], here)
            invoke(kind, here, shared)
            shutil.copy(paths[second], here)
            rc2, so, err2, to = invoke(kind, here, shared)
            rcf, so, errf, to = invoke(kind, here, fresh)
        else:
            invoke(kind, paths[first], shared)
            rc2, so, err2, to = invoke(kind, paths[second], shared)
            rcf, so, errf, to = invoke(kind, paths[second], fresh)
        rep.ev(1, 1)
        if rcf != 0:
            raise fe.Machinery("c17_near_inputs: the run into a fresh location failed for %s: %r" % (kind, errf[-200:]))
        if rc2 != 0 or result(kind, shared) != result(kind, fresh):
            rep.violation("depends-on-related-earlier-run", 10, "kmertools %s on input '%s' into the location of an earlier run on input '%s' (12 records; the two inputs differ only by: %s): exit %s; the result differs from the same run in a fresh location" % (
                kind, second, first, v, rc2), "c17_near_inputs", {"kind": kind, "variant": v, "order": order})
        shutil.rmtree(wd, ignore_errors=True)

    jobs = [(k, v, o) for k in KINDS for v in paths if v != "base" for o in (0, 1, 2)]
    pmap(do, jobs)
    rep.count("c17.near_input_histories", len(jobs))
    rep.sample("kmertools min -p m2s on 12 records, then on the same records with the ids of two of them exchanged, same output path: the listing of the second input")
    return rep.done()


def c_giant_record_in_the_middle(tier, kinds):
    """one record of 2^28 + 5 bases between two short ones (a chromosome after a contig): the rows come in input order.
    Raw counts at k = 3; oracle: the row sums are the window counts of the three records, in that order."""
    rep = Rep()
    d = fresh_dir("giant")
    n = (1 << 28) + 5
    inp = os.path.join(d, "g.fa")
    unit = (b"ACGTTGCAAGCTTAGGCATCGATCGGATTACAGATTACACCAGTAGCTAACGG" * 20000)
    with open(inp, "wb") as f:
        f.write(b">short1\n" + b"ACGTTGCAAGCTTAGGCATCGATCGGATTACAGATTACAC\n>giant\n")
        left = n
        while left > 0:
            f.write(unit[:left])
            left -= min(left, len(unit))
        f.write(b"\n>short2\n" + b"TTGACCGGATACGCAGGCATTACGATCCGACATGCCGATTAGGCTACGTA\n")
    want = [40 - 2, n - 2, 50 - 2]
    ARGS = {"kcgr": ["comp", "cgr", "-k", "3", "-v", "64", "-c"], "oligo-c": ["comp", "oligo", "-c", "-k", "3"]}
    for kind in kinds:
        out = os.path.join(d, kind + ".out")
        a = ARGS[kind]
        rc, so, err, to = cli(a[:2] + ["-i", inp, "-o", out] + a[2:] + ["-t", "2"], timeout=900)
        rep.ev(1, 1)
        rows = lines_of(read(out)) or []
        sums = []
        for row in rows:
            if kind == "kcgr":
                sums.append(int(round(sum(float(t.rstrip(b")").rsplit(b",", 1)[1]) for t in row.split(b" ") if t))))
            else:
                sums.append(int(round(sum(float(t) for t in row.split(b" ") if t))))
        if rc != 0 or sums != want:
            rep.violation("rows-out-of-order", 3, "kmertools %s on records of 40, 2^28 + 5 and 50 bases: exit %s, row sums %r, expected %r (the window counts in input order)" % (" ".join(a), rc, sums, want), "c_giant_record", {"kind": kind})
    shutil.rmtree(d, ignore_errors=True)
    rep.count("cases.giant_record_between_short_ones", len(kinds))
    return rep.done()


def c17_devices(tier):
    """file identity across file systems (py/c17dev.py, run in a private mount namespace with two fresh tmpfs mounts):
    the stale output on another file system with the input's inode number / another number / on the input's own"""
    import json
    import sys
    rep = Rep()
    wd = fresh_dir("c17dev")
    how = None
    if shutil.which("unshare"):
        for cand in (["unshare", "-m"], ["unshare", "-rm"]):
            if run(cand + ["true"], timeout=20)[0] == 0:
                how = cand
                break
    if how is None:
        rep.count("c17.device_cases", 0)
        rep.note("no private mount namespace available: file identity across file systems was not explored")
        return rep.done()
    out = os.path.join(wd, "report.json")
    rc, so, err, to = run(how + [sys.executable, os.path.join(fe.VERIF, "py", "c17dev.py"), fe.CLI, os.path.join(wd, "m"), out], timeout=900)
    if rc != 0 or not os.path.exists(out):
        raise fe.Machinery("c17dev.py failed (exit %s): %s" % (rc, err[-600:].decode("utf-8", "replace")))
    r = json.load(open(out))
    if r["skipped"]:
        rep.note("file identity across file systems not explored: %s" % r["skipped"])
    rep.ev(r["runs"], r["runs"])
    rep.count("c17.device_cases", len(r["cases"]))
    rep.count("c17.inode_coincidences_arranged", r["coincidences"])
    for c in r["cases"]:
        if "no coincidence" in c:
            rep.note(c)
    for v in r["violations"]:
        rep.violation("depends-on-file-identity", 10, v["desc"], "c17_devices", {"kind": v["kind"], "relation": v["relation"]})
    rep.sample("input on one tmpfs, the stale kmers.counts of an earlier `kmertools ctr` run on another tmpfs with the input's inode number: same table as into a fresh directory")
    shutil.rmtree(wd, ignore_errors=True)
    return rep.done()


def _py_eval(code, timeout=300):
    import sys
    return run([sys.executable, "-c", code], timeout=timeout)


def c03_cli(tier):
    """header line of `kmertools comp oligo -H` and of the Python binding = canonical k-mers in rank order"""
    import json
    rep = Rep()
    d = fresh_dir("c03")
    inp = os.path.join(d, "in.fa")
    open(inp, "wb").write(b">a\nACGTTGCAAGCT\n>b\nNNACG\n")
    jobs = [(k, preset, counts, t) for k in range(3, 8) for preset in ("csv", "tsv", "spc") for counts in (0, 1) for t in (0, 1, 3)]

    def do(job):
        k, preset, counts, t = job
        out = os.path.join(fresh_dir("c03o"), "o.txt")
        args = ["comp", "oligo", "-i", inp, "-o", out, "-k", str(k), "-p", preset, "-H", "-t", str(t)] + (["-c"] if counts else [])
        rc, so, err, to = cli(args)
        rep.ev(1, 1)
        data = read(out)
        names = [n.encode() for n in pm.header_names(k)]
        a = {"k": k, "preset": preset, "counts": counts, "t": t}
        if rc != 0 or data is None:
            rep.violation("run-failed", k, "kmertools %s: exit %s %r" % (" ".join(args), rc, err[-200:]), "c03_cli", a)
            return
        ls = lines_of(data)
        if not ls or ls[0].split(PRESET_DELIM[preset]) != names:
            rep.violation("header-line", k, "kmertools %s: header line %r... is not the canonical %d-mers in increasing order (%d columns expected)" % (" ".join(args), (ls[0][:60] if ls else b""), k, len(names)), "c03_cli", a)
        elif len(ls) != 3 or any(len(r.split(PRESET_DELIM[preset])) != len(names) for r in ls[1:]):
            rep.violation("column-count", k, "kmertools %s: rows do not have one value per header column" % " ".join(args), "c03_cli", a)

    pmap(do, jobs)

    # the header line before one batch of more than 2^25 bytes of rows (both writers, file and standard input)
    big = os.path.join(d, "big.fa")
    nbig = 9000
    open(big, "wb").write(b"".join(b">q%d\n%s\n" % (i, r) for i, r in enumerate(lcg_records(nbig, 808, 12, 50, False))))

    def do_big(job):
        k, counts, stdin_input, preset = job
        out = os.path.join(fresh_dir("c03b"), "o.txt")
        args = ["comp", "oligo", "-i", "-" if stdin_input else big, "-o", out, "-k", str(k), "-p", preset, "-H", "-t", "4"] + (["-c"] if counts else [])
        rc, so, err, to = cli(args, timeout=300, stdin_file=big if stdin_input else None)
        rep.ev(1, 1)
        a = {"k": k, "counts": counts, "stdin": stdin_input, "records": nbig}
        names = PRESET_DELIM[preset].join(n.encode() for n in pm.header_names(k))
        data = read(out)
        if rc != 0 or data is None:
            rep.violation("run-failed", k, "kmertools %s: exit %s %r" % (" ".join(args), rc, err[-200:]), "c03_cli", a)
            return
        first, _, rest = data.partition(b"\n")
        nlines = data.count(b"\n")
        again = rest.find(names)
        if first != names or nlines != nbig + 1 or again != -1:
            rep.violation("header-line", k, "kmertools %s on %d records (%d bytes of output): the first line %s the header, %d lines, header text found %s" % (
                " ".join(args), nbig, len(data), "is" if first == names else "is NOT", nlines, "only at the top" if again == -1 else "again at byte %d" % (again + len(first) + 1)), "c03_cli", a)

    pmap(do_big, [(5, 1, False, "csv"), (5, 0, True, "tsv"), (5, 0, False, "spc"), (4, 1, True, "csv")])
    code = "import sys,json; sys.path.insert(0,%r); import pykmertools as p; print(json.dumps({k: p.OligoComputer(k).get_header() for k in range(1,9)}))" % fe.PYMOD_DIR
    rc, so, err, to = _py_eval(code)
    if rc != 0:
        rep.violation("python-header-failed", 0, "pykmertools get_header: exit %s %r" % (rc, err[-300:]), "c03_cli", {})
    else:
        got = json.loads(so)
        for k in range(1, 9):
            rep.ev(1, 1)
            if got[str(k)] != pm.header_names(k):
                rep.violation("python-header", k, "pykmertools.OligoComputer(%d).get_header() = %r..., expected the canonical k-mers in increasing order" % (k, got[str(k)][:8]), "c03_cli", {"k": k})
    rep.sample("kmertools comp oligo -H -k 6 -p tsv: first line = 2080 canonical 6-mers AAAAAA..TTTAAA in increasing order; pykmertools.OligoComputer(2).get_header()")
    return rep.done()


def c04_cli(tier):
    """CLI and Python oligo vectors on every string over {A,C,G,T,N} up to length 4 (thorough 5)"""
    import json
    rep = Rep()
    maxlen = 5 if tier == "thorough" else 4
    recs = [b""]
    for n in range(1, maxlen + 1):
        recs += [bytes(t) for t in itertools.product(b"ACGTN", repeat=n)]
    recs = [r for r in recs if r]  # FASTA records with at least one base (empty records are covered in C16)
    # ... except one in the middle, whose header line has no id but a description: its row is all zeros
    mid = len(recs) // 2
    recs.insert(mid, b"")
    d = fresh_dir("c04")
    inp = os.path.join(d, "in.fa")
    text = b"".join((b"> unplaced scaffold\n\n" if i == mid else b">r%d d\n%s\n" % (i, r)) for i, r in enumerate(recs))
    open(inp, "wb").write(text)
    # the container is part of the input of every file-level path: the same records as a gzip file with one member
    # and as one with several members whose boundaries fall inside sequence lines, headers and between records
    import gzip
    cuts = [0, len(text) // 3 + 1, len(text) // 3 + 2, (2 * len(text)) // 3, len(text)]
    inputs = {"plain": inp, "gz": os.path.join(d, "one.fa.gz"), "gz-members": os.path.join(d, "many.fa.gz")}
    open(inputs["gz"], "wb").write(gzip.compress(text))
    open(inputs["gz-members"], "wb").write(b"".join(gzip.compress(text[a:b]) for a, b in zip(cuts, cuts[1:])))
    jobs = [(k, counts, t, "plain") for k in (3, 4, 5) for counts in (0, 1) for t in (1, 16)]
    jobs += [(3, counts, t, c) for counts in (0, 1) for t in (1, 16) for c in ("gz", "gz-members")]

    def do(job):
        k, counts, t, container = job
        inp = inputs[container]
        out = os.path.join(fresh_dir("c04o"), "o.txt")
        args = ["comp", "oligo", "-i", inp, "-o", out, "-k", str(k), "-t", str(t)] + (["-c"] if counts else [])
        rc, so, err, to = cli(args, timeout=120)
        rows = lines_of(read(out))
        a = {"k": k, "counts": counts, "t": t, "container": container}
        rep.ev(1, 0)
        if rc != 0 or rows is None or len(rows) != len(recs):
            rep.violation("run-failed", k, "kmertools %s: exit %s, %s rows for %d records" % (" ".join(args), rc, None if rows is None else len(rows), len(recs)), "c04_cli", a)
            return
        for i, (row, r) in enumerate(zip(rows, recs)):
            v, tt = pm.oligo(r, k)
            toks = row.split(b" ")
            rep.ev(1, 1 if tt else 0)
            bad = len(toks) != len(v)
            if not bad:
                for c, tok in enumerate(toks):
                    val = float(tok)
                    if (val != v[c]) if counts else (not pm.close(val, v[c], tt)):
                        bad = True
                        break
            if bad:
                rep.violation("row-value", len(r), "kmertools %s: row %d (record %r) = %r..., model counts %r of %d windows" % (" ".join(args), i, r, row[:60], [x for x in v if x], tt), "c04_cli", a)
                return

    pmap(do, jobs)
    # Python binding against the model (tolerance), all strings, k 1..=3
    code = ("import sys,json,itertools; sys.path.insert(0,%r); import pykmertools as p\n"
            "out={}\n"
            "for k in (1,2,3):\n"
            "  oc=p.OligoComputer(k)\n"
            "  for n in range(0,%d):\n"
            "    for t in itertools.product('ACGTN',repeat=n):\n"
            "      s=''.join(t); out['%%d %%s'%%(k,s)]=[oc.vectorise_one(s,True),oc.vectorise_one(s,False)]\n"
            "print(json.dumps(out))\n") % (fe.PYMOD_DIR, maxlen + 1)
    rc, so, err, to = _py_eval(code)
    if rc != 0:
        rep.violation("python-failed", 0, "pykmertools vectorise_one sweep: exit %s %r" % (rc, err[-300:]), "c04_cli", {})
    else:
        got = json.loads(so)
        for key, (vn, vr) in got.items():
            k, _, s = key.partition(" ")
            k = int(k)
            v, tt = pm.oligo(s.encode(), k)
            rep.ev(1, 1 if tt else 0)
            if len(vn) != len(v) or vr != [float(x) for x in v] or any(not pm.close(a, c, tt) for a, c in zip(vn, v)):
                rep.violation("python-row-value", len(s), "pykmertools.OligoComputer(%d).vectorise_one(%r) = %r / %r, model counts %r of %d" % (k, s, vn[:8], vr[:8], v[:8], tt), "c04_cli", {"k": k, "s": s})
                break
    rep.sample("kmertools comp oligo -k 4 -c on all %d strings over ACGTN up to length %d as one FASTA; pykmertools vectorise_one on the same strings" % (len(recs), maxlen))
    return rep.done()
