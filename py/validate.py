#!/usr/bin/env python3
"""validate MANIFEST.json and evidence files against the schemas (needs jsonschema: run with python3-vt)"""
import json, sys, glob, jsonschema
ev = json.load(open('/root/.vp/EVIDENCE.schema.json'))
ok = True
for f in sorted(glob.glob('/verif/evidence/*.json')):
    try:
        jsonschema.validate(json.load(open(f)), ev)
    except Exception as e:
        ok = False; print('INVALID', f, str(e)[:300])
try:
    jsonschema.validate(json.load(open('/verif/MANIFEST.json')), json.load(open('/root/.vp/MANIFEST.schema.json')))
except Exception as e:
    ok = False; print('INVALID MANIFEST', str(e)[:300])
print('all valid' if ok else 'PROBLEMS')
sys.exit(0 if ok else 1)
