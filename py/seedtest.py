#!/usr/bin/env python3
"""Apply each seeded change to /repo, run the check(s) of its property, undo the change. Usage: seedtest.py [seed dirs..] [--checks C01,C02]"""
import json, os, subprocess, sys, time
VERIF = os.path.dirname(os.path.dirname(os.path.abspath(__file__)))
REPO = os.environ.get("KTMC_REPO", "/repo")  # an isolated copy when run through `vp run --with-repo`
args = [a for a in sys.argv[1:] if not a.startswith("--")]
extra = [a.split("=", 1)[1].split(",") for a in sys.argv[1:] if a.startswith("--checks=")]
tier = "thorough" if "--thorough" in sys.argv else "quick"
seeds = [os.path.abspath(a) for a in args] or sorted(os.path.join(VERIF, "seeded", d) for d in os.listdir(os.path.join(VERIF, "seeded")))
assert subprocess.run(["git", "-C", REPO, "status", "--porcelain"], stdout=subprocess.PIPE).stdout.strip() == b"", "/repo not clean"
for sd in seeds:
    meta = json.load(open(os.path.join(sd, "meta.json")))
    props = extra[0] if extra else [meta["property"]]
    subprocess.run(["git", "-C", REPO, "apply", os.path.join(sd, "patch.diff")], check=True)
    res = {}
    saved = {}
    try:
        for p in props:
            ev = os.path.join(VERIF, "evidence", p + ".json")
            saved[ev] = open(ev, "rb").read() if os.path.exists(ev) else None
            t0 = time.time()
            r = subprocess.run([os.path.join(VERIF, "check"), p, tier], cwd=VERIF, stdout=subprocess.PIPE, stderr=subprocess.STDOUT)
            out = r.stdout.decode("utf-8", "replace")
            viol = [l for l in out.splitlines() if l.startswith("VIOLATION") or l.startswith("  [")]
            res[p] = {"exit": r.returncode, "wall_s": round(time.time() - t0, 1), "lines": [l[:400] for l in viol[:6]]}
            print(os.path.basename(sd), p, "exit", r.returncode, "%.1fs" % (time.time() - t0), (viol[1][:200] if len(viol) > 1 else out[-300:].strip()))
    finally:
        subprocess.run(["git", "-C", REPO, "checkout", "--", "."], check=True)
        # the evidence files must describe the unchanged tree: put back what was there before the seeded run
        for ev, data in saved.items():
            if data is None:
                if os.path.exists(ev):
                    os.remove(ev)
            else:
                open(ev, "wb").write(data)
    meta.setdefault("checked_with", {})[tier] = res
    meta["detected"] = any(v["exit"] == 1 for t in meta["checked_with"].values() for v in t.values())
    json.dump(meta, open(os.path.join(sd, "meta.json"), "w"), indent=1)
