#!/usr/bin/env python3
"""C13 driver: runs inside a child interpreter, imports the freshly built pykmertools and compares it with what
the core crates computed (expectation file written by `ktmc expect`).

usage: pydriver.py <module dir> <expectation file> <mode> <report.json>
modes: iter (all expectation lines), batch (batch calls, RAYON_NUM_THREADS from the environment)
"""
import gc
import json
import struct
import sys


def bits(v):
    return "%016x" % struct.unpack("<Q", struct.pack("<d", v))[0]


def main():
    moddir, expfile, mode, report = sys.argv[1:5]
    sys.path.insert(0, moddir)
    import pykmertools as pk
    rep = {"evaluations": 0, "nontrivial": 0, "violation_count": 0, "counters": {}, "samples": [], "notes": [],
           "outcomes": [], "violations": []}

    def viol(key, size, desc):
        rep["violation_count"] += 1
        rep["counters"]["violations[%s]" % key] = rep["counters"].get("violations[%s]" % key, 0) + 1
        if len(rep["violations"]) < 10:
            rep["violations"].append({"key": key, "size": size, "desc": desc[:1500], "runner": "py",
                                      "argv": {"fn": "c13", "args": {"mode": mode}}})

    def count(name, by=1):
        rep["counters"][name] = rep["counters"].get(name, 0) + by

    oligo = {}
    cgrc = {}
    if mode == "iter":
        keep = []  # iterators created from temporaries, drained later (lifetime clause)
        for line in open(expfile):
            parts = line.rstrip("\n").split(" ")
            tag = parts[0]
            if tag == "H":
                k = int(parts[1])
                rep["evaluations"] += 1
                oc_h = pk.OligoComputer(k)
                got = oc_h.get_header()
                if ",".join(got) != parts[2]:
                    viol("header", k, "OligoComputer(%d).get_header() = %r..., core header %r..." % (k, got[:6], parts[2][:40]))
                else:
                    # what a call returns belongs to the caller: changing it must not change what the next call returns
                    got.insert(0, "id")
                    got.reverse()
                    again = oc_h.get_header()
                    if ",".join(again) != parts[2]:
                        viol("header", k, "OligoComputer(%d).get_header() after the list returned by the previous call was modified by the caller = %r..., core header %r..." % (k, again[:6], parts[2][:40]))
                    row = oc_h.vectorise_one("ACGTTGCAAC", False)
                    row_copy = list(row)
                    for i in range(len(row)):
                        row[i] = -1.0
                    if oc_h.vectorise_one("ACGTTGCAAC", False) != row_copy:
                        viol("oligo-vector", k, "OligoComputer(%d).vectorise_one returns another vector after the list returned by the previous call was modified by the caller" % k)
                rep["nontrivial"] += 1
                continue
            if tag == "T":
                k, x = int(parts[1]), int(parts[2])
                rep["evaluations"] += 1
                a = pk.KmerGenerator("A", k).to_acgt(x)
                b = pk.MinimiserGenerator("A", k + 3, k).to_acgt(x)  # window and minimiser size differ: m decides
                if a != parts[3] or b != parts[3]:
                    viol("to-acgt", k, "to_acgt(%d) with k=%d: KmerGenerator gives %r, MinimiserGenerator gives %r, core numeric_to_kmer gives %r" % (x, k, a, b, parts[3]))
                else:
                    rep["nontrivial"] += 1
                count("to_acgt_cases")
                continue
            if tag == "OR":
                unit, n, k, norm = bytes.fromhex(parts[1]).decode("ascii"), int(parts[2]), int(parts[3]), parts[4] == "1"
                s = (unit * (n // len(unit) + 1))[:n]
                rep["evaluations"] += 1
                for how in ("one", "batch"):
                    oc = pk.OligoComputer(k)
                    row = oc.vectorise_one(s, norm) if how == "one" else oc.vectorise_batch([s, "ACGT"], norm)[0]
                    got = ",".join(bits(v) for v in row)
                    if got != parts[5]:
                        viol("oligo-vector", 10 ** 9, "OligoComputer(%d).vectorise_%s on %r repeated to %d bases (norm=%s) differs from the core row: %r..., core %r..." % (k, how, unit, n, norm, [float(v) for v in row[:3]], parts[5][:50]))
                    else:
                        rep["nontrivial"] += 1
                del s
                count("huge_records")
                continue
            raw = bytes.fromhex(parts[1])
            try:
                s = raw.decode("utf-8")
            except UnicodeDecodeError:
                continue
            rep["evaluations"] += 1
            if tag == "K":
                k = int(parts[2])
                exp = parts[3] if len(parts) > 3 else ""
                g = pk.KmerGenerator(s, k)
                if rep["evaluations"] % 7 == 0 and exp:
                    # iterator protocol: iter() hands back the same object; partial consumption then the rest
                    first = next(g)
                    rest = list(iter(g))
                    again = list(g)
                    got = ",".join("%d:%d" % t for t in [first] + rest)
                    if iter(g) is not g or again:
                        viol("iterator-protocol", len(raw), "KmerGenerator(%r, %d): iter() is not the object itself or it yields again after exhaustion (%r)" % (s, k, again[:3]))
                else:
                    got = ",".join("%d:%d" % t for t in g)
                if got != exp:
                    viol("kmer-iterator", len(raw), "KmerGenerator(%r, %d) yields %s, core yields %s" % (s, k, got[:200], exp[:200]))
                elif exp:
                    rep["nontrivial"] += 1
                count("kmer_cases")
                if len(keep) < 3000 and exp and len(raw) >= 4:
                    # built from a temporary string that is released at once
                    keep.append(("K", pk.KmerGenerator("".join([s]), k), exp, s, k))
            elif tag == "M":
                w, m = int(parts[2]), int(parts[3])
                exp = parts[4] if len(parts) > 4 else ""
                g = pk.MinimiserGenerator(s, w, m)
                if rep["evaluations"] % 7 == 0 and exp:
                    first = next(g)
                    rest = list(iter(g))
                    again = list(g)
                    got = ",".join("%d:%d:%d" % t for t in [first] + rest)
                    if iter(g) is not g or again:
                        viol("iterator-protocol", len(raw), "MinimiserGenerator(%r, %d, %d): iter() is not the object itself or it yields again after exhaustion (%r)" % (s, w, m, again[:3]))
                else:
                    got = ",".join("%d:%d:%d" % t for t in g)
                if got != exp:
                    viol("minimiser-iterator", len(raw), "MinimiserGenerator(%r, %d, %d) yields %s, core yields %s" % (s, w, m, got[:200], exp[:200]))
                elif exp:
                    rep["nontrivial"] += 1
                count("minimiser_cases")
                if len(keep) < 6000 and exp and len(raw) >= 4:
                    keep.append(("M", pk.MinimiserGenerator("".join([s]), w, m), exp, s, (w, m)))
            elif tag == "O":
                k, norm = int(parts[2]), parts[3] == "1"
                if k not in oligo:
                    oligo[k] = pk.OligoComputer(k)
                got = ",".join(bits(v) for v in oligo[k].vectorise_one(s, norm))
                if got != parts[4]:
                    viol("oligo-vector", len(raw), "OligoComputer(%d).vectorise_one(%r, norm=%s) differs from the core row (before rounding)" % (k, s, norm))
                elif len(raw) >= k:
                    rep["nontrivial"] += 1
                count("oligo_cases")
            elif tag == "G":
                size = int(parts[2])
                if size not in cgrc:
                    cgrc[size] = pk.CgrComputer(size)
                exp = parts[3] if len(parts) > 3 else ""
                try:
                    pts = cgrc[size].vectorise_one(s)
                    got = ",".join("%s:%s" % (bits(x), bits(y)) for x, y in pts)
                except ValueError:
                    got = "ERR"
                except BaseException as e:  # noqa
                    got = "EXC:%s" % type(e).__name__
                if got != exp:
                    key = "cgr-bad-nucleotide" if "ERR" in (got, exp) or got.startswith("EXC") else "cgr-points"
                    viol(key, len(raw), "CgrComputer(%d).vectorise_one(%r): %s, core: %s" % (size, s, got[:120], exp[:120]))
                else:
                    rep["nontrivial"] += 1
                count("cgr_cases")
        # lifetime: force collection and allocator churn, then drain the iterators built from temporaries
        gc.collect()
        # churn the allocator with objects of the same size classes as the released strings (small-object arenas
        # are reused size class by size class), then with large blocks
        junk = []
        for rounds in range(3):
            for n in range(1, 96):
                junk.extend(("TN"[rounds % 2] * n + str(i))[:n + 1] for i in range(400))
                junk.extend((b"TN"[rounds % 2:rounds % 2 + 1] * n) + bytes([i % 251]) for i in range(400))
        big = [bytearray(b"T" * 4096) for _ in range(5000)]
        del junk
        del big
        gc.collect()
        junk = ["N" * n + str(i) for n in range(1, 96) for i in range(300)]
        # the extension allocates its own copies with the system allocator: churn that heap too, with buffers of the
        # same sizes as the kept iterators' inputs but different content
        for rounds in range(4):
            tmp = [pk.KmerGenerator("T" * n, 1) for n in range(1, 80) for _ in range(40)]
            tmp += [pk.MinimiserGenerator("G" * n, 1, 1) for n in range(1, 80) for _ in range(40)]
            del tmp
        for tag, it, exp, s, par in keep:
            rep["evaluations"] += 1
            if tag == "K":
                got = ",".join("%d:%d" % t for t in it)
            else:
                got = ",".join("%d:%d:%d" % t for t in it)
            if got != exp:
                viol("iterator-after-release", len(s), "%s iterator over %r %r drained after its source string was released yields %s, core %s" % (tag, s, par, got[:150], exp[:150]))
            else:
                rep["nontrivial"] += 1
        count("lifetime_cases", len(keep))
        rep["samples"] = ["KmerGenerator('ACNug', 2) vs core", "MinimiserGenerator('CCCCA', 4, 2) vs core",
                          "CgrComputer(16).vectorise_one('ACNG') must raise ValueError (core: Err)",
                          "KmerGenerator('Aéc', 1): non-ASCII bytes act as ambiguous"]
    elif mode == "pythreads":
        # one computer object shared by several Python threads, each issuing batch calls (one of them batches that must
        # be refused): every valid batch still equals the per-sequence results, every refused one still raises.
        # Free-running repetition (the interleaving of Python threads cannot be controlled from here).
        import threading
        x = 777
        pool = []
        for i in range(3000):
            x = (x * 6364136223846793005 + 1442695040888963407) % (1 << 64)
            ln = 20 + (x >> 40) % 400
            t = []
            for j in range(ln):
                x = (x * 6364136223846793005 + 1442695040888963407) % (1 << 64)
                t.append("ACGT"[(x >> 33) % 4])
            pool.append("".join(t))
        cg = pk.CgrComputer(16)
        oc = pk.OligoComputer(3)
        exp_cg = [cg.vectorise_one(q) for q in pool]
        exp_oc = [oc.vectorise_one(q, True) for q in pool]
        bad_batch = pool[:40] + ["ACGTNACGT"] + pool[40:200]
        problems = []
        rounds = 12

        def valid_cgr():
            for r in range(rounds):
                try:
                    got = cg.vectorise_batch(list(pool))
                except BaseException as e:  # noqa
                    problems.append(("cgr-batch-shared", "round %d: a valid batch raised %s: %s" % (r, type(e).__name__, e)))
                    return
                wrong = [i for i in range(len(pool)) if got[i] != exp_cg[i]] if len(got) == len(pool) else None
                if wrong is None or wrong:
                    problems.append(("cgr-batch-shared", "round %d: a valid batch of %d sequences on a computer used by another thread: %s" % (
                        r, len(pool), "%d rows" % len(got) if wrong is None else "%d rows differ from vectorise_one (first: row %d, %d points for %d bases)" % (len(wrong), wrong[0], len(got[wrong[0]]), len(pool[wrong[0]])))))
                    return

        def refused_cgr():
            for r in range(rounds * 6):
                try:
                    cg.vectorise_batch(list(bad_batch))
                    problems.append(("cgr-batch-shared", "round %d: a batch with a bad nucleotide returned coordinates" % r))
                    return
                except ValueError:
                    pass

        def valid_oligo():
            for r in range(rounds):
                got = oc.vectorise_batch(list(pool), True)
                if got != exp_oc:
                    problems.append(("oligo-batch-shared", "round %d: a batch on a shared OligoComputer differs from the per-sequence results" % r))
                    return

        ths = [threading.Thread(target=f) for f in (valid_cgr, refused_cgr, valid_oligo, valid_cgr)]
        for t in ths:
            t.start()
        for t in ths:
            t.join()
        rep["evaluations"] += rounds * 3 + rounds * 6
        rep["nontrivial"] += rounds * 3 + rounds * 6
        for key, msg in problems[:5]:
            viol(key, 5, msg)
        count("shared_object_thread_rounds", rounds)
        rep["samples"] = ["two Python threads share one CgrComputer: one issues valid batches, the other batches that are refused"]
    elif mode in ("bigbatch", "hugebatch"):
        # the TOTAL size of one batch is an input dimension of its own: batches whose sequences add up to more than
        # 2^28 (bigbatch) and 2^32 (hugebatch) bases, in three shapes (many small, some medium, few large records);
        # oracle = vectorise_one of each distinct record, in argument order
        import hashlib
        def dna(n, seed):
            out = bytearray()
            i = 0
            while len(out) < n:
                out += hashlib.sha256(b"%d:%d" % (seed, i)).digest()
                i += 1
            return bytes(out[:n]).translate(bytes(b"ACGT"[b & 3] for b in range(256))).decode()
        target = (1 << 28) if mode == "bigbatch" else (1 << 32)
        shapes = [(1000, "many small"), (1 << 20, "medium"), (target // 5 + 11, "few large")] if mode == "bigbatch" else [(1 << 26, "large")]
        oc = pk.OligoComputer(2)
        for base_len, label in shapes:
            distinct = [dna(base_len + j, 1000 + j) for j in range(7)]
            exp7 = [oc.vectorise_one(s, False) for s in distinct]
            if len(set(tuple(r) for r in exp7)) != 7:
                raise SystemExit("big-batch generator fault: rows of the distinct records coincide")
            batch, total = [], 0
            while total <= target + 3 * base_len:
                batch.append(distinct[len(batch) % 7])
                total += len(batch[-1])
            rep["evaluations"] += 1
            try:
                got = oc.vectorise_batch(batch, False)
            except BaseException as e:  # noqa
                viol("oligo-big-batch", len(batch), "OligoComputer(2).vectorise_batch of %d %s sequences (%d bases in all) raised %s: %s" % (len(batch), label, total, type(e).__name__, e))
                continue
            bad = None
            if len(got) != len(batch):
                bad = "%d rows for %d sequences" % (len(got), len(batch))
            else:
                for i, row in enumerate(got):
                    if row != exp7[i % 7]:
                        bad = "row %d is not vectorise_one of sequence %d" % (i, i)
                        break
            if bad:
                viol("oligo-big-batch", len(batch), "OligoComputer(2).vectorise_batch of %d %s sequences (%d bases in all, norm=False): %s" % (len(batch), label, total, bad))
            else:
                rep["nontrivial"] += 1
            count("big_batch_total_bases_max", 0)
            rep["counters"]["big_batch_total_bases_max"] = max(rep["counters"]["big_batch_total_bases_max"], total)
            del batch, got
            gc.collect()
        rep["samples"] = ["OligoComputer(2).vectorise_batch of sequences adding up to more than 2^28 bases == [vectorise_one(s) ...]"]
    else:
        # batches: exactly the per-item results in argument order, for every batch size
        seqs_pool = []
        x = 12345
        for i in range(5000):
            x = (x * 6364136223846793005 + 1442695040888963407) % (1 << 64)
            ln = (x >> 40) % 30
            s = []
            for j in range(ln):
                x = (x * 6364136223846793005 + 1442695040888963407) % (1 << 64)
                s.append("ACGTacgtuN"[(x >> 33) % 10])
            seqs_pool.append("".join(s))
        oc = pk.OligoComputer(3)
        cg = pk.CgrComputer(16)
        clean_pool = [s.replace("N", "A") for s in seqs_pool]
        for size in list(range(0, 65)) + [1000, 4096]:
            for norm in (True, False):
                rep["evaluations"] += 1
                batch = seqs_pool[:size]
                try:
                    got = oc.vectorise_batch(list(batch), norm)
                except BaseException as e:  # noqa  (a Rust panic surfaces as pyo3's PanicException, a BaseException)
                    viol("oligo-batch", size, "OligoComputer(3).vectorise_batch of %d sequences (norm=%s) raised %s: %s" % (size, norm, type(e).__name__, e))
                    continue
                exp = [oc.vectorise_one(s, norm) for s in batch]
                if got != exp:
                    bad = next((i for i, (a, b) in enumerate(zip(got, exp)) if a != b), None)
                    viol("oligo-batch", size, "OligoComputer(3).vectorise_batch of %d sequences (norm=%s): element %s differs from vectorise_one (lengths %d vs %d)" % (size, norm, bad, len(got), len(exp)))
                else:
                    rep["nontrivial"] += 1
            rep["evaluations"] += 1
            batch = clean_pool[:size]
            try:
                got = cg.vectorise_batch(list(batch))
            except BaseException as e:  # noqa
                got = "raised %s: %s" % (type(e).__name__, e)
            exp = [cg.vectorise_one(s) for s in batch]
            if got != exp:
                viol("cgr-batch", size, "CgrComputer(16).vectorise_batch of %d sequences differs from the per-sequence results" % size)
            else:
                rep["nontrivial"] += 1
            if size in (1, 7, 64, 1000):
                # one bad sequence at each of a few positions: ValueError, never a crash
                for pos in (0, size // 2, size - 1):
                    b2 = list(batch)
                    b2[pos] = "ACNGT"
                    rep["evaluations"] += 1
                    try:
                        cg.vectorise_batch(b2)
                        viol("cgr-batch-bad-nucleotide", size, "vectorise_batch with a bad nucleotide at position %d of %d returned coordinates" % (pos, size))
                    except ValueError:
                        rep["nontrivial"] += 1
        # the batch functions run on rayon's pool, whose schedule cannot be controlled from here: small batches are
        # repeated (free-running; this part is repetition, not an exhaustive exploration of schedules)
        reps = 0
        for rnd in range(40):
            for size in (2, 3, 4, 5, 7, 8, 9, 15, 16, 17, 31, 33):
                batch = seqs_pool[rnd * 37 % 900:][:size]
                reps += 1
                rep["evaluations"] += 1
                try:
                    got = oc.vectorise_batch(list(batch), rnd % 2 == 0)
                    exp = [oc.vectorise_one(s, rnd % 2 == 0) for s in batch]
                    ok = got == exp
                    why = "differs from the per-sequence results"
                except BaseException as e:  # noqa
                    ok, why = False, "raised %s: %s" % (type(e).__name__, e)
                if not ok:
                    viol("oligo-batch", size, "OligoComputer(3).vectorise_batch of %d sequences (repetition %d): %s" % (size, rnd, why))
                    break
                rep["nontrivial"] += 1
                cb = clean_pool[rnd * 37 % 900:][:size]
                try:
                    ok = cg.vectorise_batch(list(cb)) == [cg.vectorise_one(s) for s in cb]
                    why = "differs from the per-sequence results"
                except BaseException as e:  # noqa
                    ok, why = False, "raised %s: %s" % (type(e).__name__, e)
                if not ok:
                    viol("cgr-batch", size, "CgrComputer(16).vectorise_batch of %d sequences (repetition %d): %s" % (size, rnd, why))
                    break
        count("batch_repetitions", reps)
        count("batch_sizes", 67)
        rep["samples"] = ["OligoComputer(3).vectorise_batch(first 37 sequences, norm=False) == [vectorise_one(s) ...]"]
    json.dump(rep, open(report, "w"))
    return 0


if __name__ == "__main__":
    sys.exit(main())
