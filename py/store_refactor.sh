#!/bin/bash
# store_refactor.sh <id>: confirm (suite + both builds) a behaviour-preserving change in /tmp/seed/<id> and copy it to /verif/refactored/<id>
id=$1; WT=/tmp/seed/$id; d=/verif/refactored/$id
cd $WT || exit 2
git diff --quiet && git apply _out/patch.diff
passed=$(CARGO_TARGET_DIR=$WT/target cargo test --workspace --no-fail-fast --offline 2>&1 | grep -E "^test result" | awk '{s+=$4; f+=$6} END {print s" passed "f" failed"}')
vf=$(RUSTFLAGS="--cfg kmertools_verif" CARGO_TARGET_DIR=$WT/target/vf cargo build --workspace --offline 2>&1 | tail -1)
echo "$id suite=[$passed] verif-build=[$vf]"
case "$passed" in "35 passed 0 failed") ;; *) echo "$id: suite does not pass - rejected"; exit 1;; esac
mkdir -p $d; git diff > $d/patch.diff; cp _out/equivalence.md $d/ 2>/dev/null
python3 - $id "$passed" "$vf" <<'PY'
import json,sys
id,passed,vf=sys.argv[1:]
try: m=json.load(open('/tmp/seed/%s/_out/meta.json'%id))
except Exception as e: m={"summary":"(meta.json unreadable: %s)"%e}
json.dump({"kind":"behaviour-preserving change (the checks must stay silent)","area":id,"summary":m.get("summary"),"files":m.get("files"),
 "author":"fresh sub-agent given the statements of the properties of its area and a scratch worktree",
 "confirmed":{"suite":passed,"build_with_guard":vf},"agent_ran":m.get("ran")}, open('/verif/refactored/%s/meta.json'%id,'w'), indent=1)
PY
