#!/bin/bash
# store_seed.sh <worktree name under /tmp/seed> <property id> <suffix>: copy a confirmed seeded change to /verif/seeded/<prop>-<suffix>
src=$1; prop=$2; suf=${3:-a}; d=/verif/seeded/$prop-$suf; mkdir -p $d
cp /tmp/seed/$src/_out/patch.diff $d/; rm -rf $d/demo; cp -r /tmp/seed/$src/_out $d/demo; rm -f $d/demo/patch.diff
python3 - $src $prop $d <<'PY'
import json,sys
src,prop,d=sys.argv[1:]
try: m=json.load(open('/tmp/seed/%s/_out/meta.json'%src))
except Exception as e: m={"summary":"(meta.json of the agent unreadable: %s)"%e}
log=open('/tmp/seed/%s.confirm.log'%src).read()
meta={"property":prop,"summary":m.get("summary"),"needs":m.get("needs"),"files":m.get("files"),
 "author":"fresh sub-agent given only the property text and a scratch worktree",
 "confirmed":{"how":"/tmp/seed/confirm.sh in the scratch worktree: cargo test --workspace --no-fail-fast --offline with the patch; build with --cfg kmertools_verif; demo with the patch; demo with the patch reverted",
  "result":[l for l in log.splitlines() if l.startswith(("suite:","demo","RESULT"))]},
 "agent_ran":m.get("ran")}
json.dump(meta,open(d+'/meta.json','w'),indent=1)
PY
