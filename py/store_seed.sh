#!/bin/bash
# store_seed.sh <prop id> <suffix>: copy a confirmed seeded change from /tmp/seed/<id> to /verif/seeded/<id>-<suffix>
id=$1; suf=${2:-a}; d=/verif/seeded/$id-$suf; mkdir -p $d
cp /tmp/seed/$id/_out/patch.diff $d/; rm -rf $d/demo; cp -r /tmp/seed/$id/_out $d/demo; rm -f $d/demo/patch.diff
python3 - $id $d <<'PY'
import json,sys
id,d=sys.argv[1:]
try: m=json.load(open('/tmp/seed/%s/_out/meta.json'%id))
except Exception as e: m={"property":id,"summary":"(meta.json of the agent unreadable: %s)"%e}
log=open('/tmp/seed/%s.confirm.log'%id).read()
meta={"property":id,"summary":m.get("summary"),"needs":m.get("needs"),"files":m.get("files"),
 "author":"fresh sub-agent given only the property text and a scratch worktree",
 "confirmed":{"how":"/tmp/seed/confirm.sh in the scratch worktree: cargo test --workspace --no-fail-fast --offline with the patch; build with --cfg kmertools_verif; demo with the patch; demo with the patch reverted",
  "result":[l for l in log.splitlines() if l.startswith(("suite:","demo","RESULT"))]},
 "agent_ran":m.get("ran")}
json.dump(meta,open(d+'/meta.json','w'),indent=1)
PY
