#!/usr/bin/env python3
"""Development check of the stateless explorer (not a verdict of any property): an independent, abstract
simulation of the oligo mmap worker loop at hook granularity enumerates all complete schedules under the same
canonical-order and start-symmetry rules; its number of schedules per preemption count must equal what the Rust
explorer reports for the real code (evidence/C05.json counters)."""
import json, os, sys

def simulate(n_workers, n_records):
    # task program counter: 'start' -> 'lock' -> ('took' -> 'lock')* -> exited
    counts = {}
    def enabled(tasks, last):
        en = []
        seen_start = False
        if last is not None and tasks[last] != 'exited':
            en.append(last)
            if tasks[last] == 'start':
                seen_start = True
        for i, t in enumerate(tasks):
            if t == 'exited' or i == last:
                continue
            if t == 'start':
                if seen_start:
                    continue
                seen_start = True
            en.append(i)
        return en
    def step(tasks, remaining, i):
        tasks = list(tasks)
        t = tasks[i]
        if t == 'start':
            tasks[i] = 'lock'
        elif t == 'lock':
            if remaining > 0:
                remaining -= 1
                tasks[i] = 'took'
            else:
                tasks[i] = 'exited'
        elif t == 'took':
            tasks[i] = 'lock'
        return tuple(tasks), remaining
    def dfs(tasks, remaining, last, pre):
        en = enabled(tasks, last)
        if not en:
            counts[pre] = counts.get(pre, 0) + 1
            return
        runner_enabled = last is not None and tasks[last] != 'exited'
        for idx, i in enumerate(en):
            cost = 1 if (idx != 0 and runner_enabled) else 0
            t2, r2 = step(tasks, remaining, i)
            dfs(t2, r2, i, pre + cost)
    dfs(tuple(['start'] * n_workers), n_records, None, 0)
    return counts

ev = json.load(open(os.path.join(os.path.dirname(os.path.abspath(__file__)), '..', 'evidence', 'C05.json')))
c = ev['coverage']['counters']
ok = True
for label, n, r in (('N2R2k1', 2, 2), ('N2R3k1', 2, 3), ('N2R4k1H', 2, 4), ('N3R2k1', 3, 2)):
    sim = simulate(n, r)
    real = {}
    for k, v in c.items():
        pre = 'sched.%s.schedules_with_' % label
        if k.startswith(pre):
            real[int(k[len(pre):].split('_')[0])] = v
    if not c.get('sched.%s.unbounded_completed_max' % label):
        print(label, 'not explored without a bound in this evidence file; skipped')
        continue
    print(label, 'simulation', dict(sorted(sim.items())), 'explorer', dict(sorted(real.items())), 'OK' if sim == real else 'MISMATCH')
    ok = ok and sim == real
sys.exit(0 if ok else 1)
