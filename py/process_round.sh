#!/bin/bash
# process_round.sh <suffix>: confirm, store and test every finished seeded change of a round (/tmp/seed/C??<suffix>)
suf=$1; cd /verif
for wt in /tmp/seed/C??$suf; do
  name=$(basename $wt); prop=${name%$suf}
  [ -f $wt/_out/patch.diff ] || { echo "$name: no patch yet"; continue; }
  [ -d /verif/seeded/$prop-$suf ] && continue
  if ! grep -q "^RESULT" /tmp/seed/$name.confirm.log 2>/dev/null; then /tmp/seed/confirm.sh $name; fi
  res=$(grep "^RESULT" /tmp/seed/$name.confirm.log)
  echo "$res"
  case "$res" in
    *"35 passed 0 failed] with=0"*|*"without=1"*|*"without=2"*) echo "$name: NOT CONFIRMED (kept in /tmp/seed for inspection)"; continue;;
  esac
  case "$res" in *"[35 passed 0 failed]"*) ;; *) echo "$name: suite does not pass with the change - rejected"; continue;; esac
  py/store_seed.sh $name $prop $suf
  git -C /repo worktree remove --force $wt
  python3 py/seedtest.py seeded/$prop-$suf 2>&1 | tail -1 | cut -c1-400
done
git -C /repo worktree prune
