#!/usr/bin/env python3
"""(Re)generates the table of seeded changes in DESIGN.md from seeded/*/meta.json."""
import json, os, re
V = os.path.dirname(os.path.dirname(os.path.abspath(__file__)))
rows = ["| seed | property | the change (summary of its author) | needs | caught by (quick tier) |", "|---|---|---|---|---|"]
for d in sorted(os.listdir(os.path.join(V, "seeded"))):
    m = json.load(open(os.path.join(V, "seeded", d, "meta.json")))
    def cut(t, n):
        t = re.sub(r"\s+", " ", str(t or "")).replace("|", "/")
        return t if len(t) <= n else t[:n - 1] + "…"
    caught = []
    for tier, res in (m.get("checked_with") or {}).items():
        for p, r in res.items():
            if r["exit"] == 1:
                key = ""
                for l in r.get("lines", []):
                    mm = re.match(r"\s+\[([^\]]+)\]", l)
                    if mm:
                        key = mm.group(1)
                        break
                caught.append("`./check %s %s` → `%s`" % (p, tier, key))
            else:
                caught.append("**missed** by `./check %s %s` (exit %s)" % (p, tier, r["exit"]))
    rows.append("| %s | %s | %s | %s | %s |" % (d, m["property"], cut(m.get("summary"), 260), cut(m.get("needs"), 200), "; ".join(caught) or "not yet run"))
table = "<!-- seedtable:begin -->\n" + "\n".join(rows) + "\n<!-- seedtable:end -->"
p = os.path.join(V, "DESIGN.md")
s = open(p).read()
if "@SEEDTABLE@" in s:
    s = s.replace("@SEEDTABLE@", table)
else:
    s = re.sub(r"<!-- seedtable:begin -->.*?<!-- seedtable:end -->", lambda _: table, s, flags=re.S)
open(p, "w").write(s)
print("%d seeds" % (len(rows) - 2))
