#!/usr/bin/env python3
"""C17, file identity across filesystems. Runs inside a private mount namespace (`unshare -m`), where it mounts two
fresh tmpfs file systems IN and OUT. What the output location already holds is, for every subcommand, arranged so that
its identity relates to the input's in each possible way:

  other-fs-same-inode   the stale output (the path given to -o, or for directory outputs also the result file inside it)
                        lives on another file system and carries the input's inode NUMBER
  other-fs              another file system, another inode number
  same-fs               the same file system as the input (necessarily another inode number)

(the fourth combination, same file system and same inode number, is the input itself under another name; overwriting
one's own input is not a result the property speaks about). Oracle: the canonical content of the output equals that of
the same command run into a fresh location.

usage: c17dev.py <kmertools binary> <scratch dir> <report.json>
"""
import json
import os
import shutil
import subprocess
import sys

cli, base, report = sys.argv[1:4]
rep = {"runs": 0, "coincidences": 0, "violations": [], "skipped": None, "cases": []}


def finish():
    json.dump(rep, open(report, "w"))
    sys.exit(0)


IN, OUT = os.path.join(base, "in"), os.path.join(base, "out")
os.makedirs(IN)
os.makedirs(OUT)
for p in (IN, OUT):
    if subprocess.run(["mount", "-t", "tmpfs", "-o", "size=256m", "none", p], stderr=subprocess.DEVNULL).returncode != 0:
        rep["skipped"] = "tmpfs cannot be mounted in a private mount namespace here"
        finish()
if os.stat(IN).st_dev == os.stat(OUT).st_dev:
    rep["skipped"] = "the two mounts are one device"
    finish()

A = b">a1\nATATATATATGCGCGCGCGCATATATATATGCGCGCGCGCTTTTTTTTTTAAAAAAAAAACCCCCCCCCCGG\n>a2\nACACACACACACGTGTGTGTGTGTGTCACACACACAGAGAGAGAGAGATCTCTCTCTCTCTCAGAGAGAGAG\n"
B = b"".join(b">b%d\n%s\n" % (i, s) for i, s in enumerate([
    b"GGGTGATGGCCGCTGCCGATGGCGTCAAATCCCACCAAGTTACCCTTAACAACTTAAGGGTTTTCAAATAGA",
    b"GTTCAGGGATACGACGTTTGTATTTTAAGAATCTGAAGCAGAAGTCGATGATAATACGCGTCGTTTTATCAT",
    b"ACGTTGCATGCATGCCCGATTAGCATCGGGATATATCGCGCTAGCTAGGATCGATCGGCTAGCATCGACTAG",
    b"TTTTGGGGCCCCAAAATGCATGCAGTCAGTCGGATCGTAGCTAGCTAGTCGATGCTAGCTGATCGTAGCTAG",
    b"CATCATCATGGTGGTGGTAACAACAACTTGTTGTTGCCACCACCAGATAGATAGACTACTACTGAGGAGGAG"]))

KINDS = {
    "oligo": (["comp", "oligo", "-k", "3", "-t", "2"], None),
    "oligo-c": (["comp", "oligo", "-c", "-k", "3", "-t", "2"], None),
    "cgr": (["comp", "cgr", "-v", "16", "-t", "2"], None),
    "kcgr": (["comp", "cgr", "-k", "3", "-v", "16", "-t", "2"], None),
    "s2m": (["min", "-m", "7", "-w", "11", "-p", "s2m", "-t", "1"], None),
    "m2s": (["min", "-m", "7", "-w", "11", "-p", "m2s", "-t", "1"], None),
    "cov": (["cov", "-k", "11", "-s", "5", "-c", "5", "-t", "2"], ["kmers.counts", "kmers.vectors"]),
    "ctr": (["ctr", "-k", "11", "-t", "2"], ["kmers.counts"]),
}


def run(kind, inp, out):
    args, _ = KINDS[kind]
    p = subprocess.run([cli] + args[:2] + ["-i", inp, "-o", out] + args[2:] if args[0] == "comp" else [cli, args[0], "-i", inp, "-o", out] + args[1:],
                       stdout=subprocess.PIPE, stderr=subprocess.PIPE, timeout=120)
    rep["runs"] += 1
    return p.returncode, p.stderr[-300:].decode("utf-8", "replace")


def content(kind, out):
    files = KINDS[kind][1]
    res = {}
    if files is None:
        try:
            res["."] = sorted(open(out, "rb").read().split(b"\n"))
        except OSError:
            res["."] = None
    else:
        for f in files:
            try:
                data = open(os.path.join(out, f), "rb").read().split(b"\n")
                res[f] = sorted(data) if f == "kmers.counts" else data
            except OSError:
                res[f] = None
        try:
            res["other entries"] = sorted(x for x in os.listdir(out) if x not in files)
        except OSError:
            res["other entries"] = None
    return res


counter = [0]


def new_name(where, stem):
    counter[0] += 1
    return os.path.join(where, "%s%d" % (stem, counter[0]))


def make_with_inode(where, target, directory):
    """creates files (or directories) in `where` until one carries inode number `target`; None if passed"""
    for _ in range(200000):
        p = new_name(where, "cand")
        if directory:
            os.mkdir(p)
        else:
            open(p, "wb").close()
        n = os.stat(p).st_ino
        if n == target:
            return p
        if directory:
            os.rmdir(p)
        else:
            os.unlink(p)
        if n > target:
            return None
    return None


def last_inode(where):
    p = new_name(where, "probe")
    open(p, "wb").close()
    n = os.stat(p).st_ino
    os.unlink(p)
    return n


for kind in KINDS:
    is_dir = KINDS[kind][1] is not None
    # what an earlier run of the same command on other input leaves behind
    binp = new_name(IN, "b") + ".fa"
    open(binp, "wb").write(B)
    stale_src = new_name(OUT, "stale-src")
    rc, err = run(kind, binp, stale_src)
    if rc != 0:
        rep["violations"].append({"kind": kind, "relation": "-", "desc": "the run that prepares the stale output failed: exit %s %s" % (rc, err)})
        continue
    variants = [("other-fs-same-inode", "path"), ("other-fs", "path"), ("same-fs", "path")]
    if is_dir:
        variants.insert(1, ("other-fs-same-inode", "kmers.counts"))
    for relation, which in variants:
        # the input is created late enough for its inode number to lie ahead of OUT's counter
        ahead = last_inode(OUT) + 40
        while last_inode(IN) < ahead:
            pass
        inp = new_name(IN, "a") + ".fa"
        open(inp, "wb").write(A)
        target = os.stat(inp).st_ino
        where = IN if relation == "same-fs" else OUT
        if relation == "other-fs-same-inode":
            if which == "path":
                got = make_with_inode(OUT, target, is_dir)
                if got is None:
                    rep["cases"].append("%s %s/%s: no coincidence could be arranged" % (kind, relation, which))
                    continue
                out = new_name(OUT, "res")
                os.rename(got, out)
                if is_dir:
                    for f in os.listdir(stale_src):
                        shutil.copy(os.path.join(stale_src, f), os.path.join(out, f))
                else:
                    open(out, "wb").write(open(stale_src, "rb").read())  # same inode, stale content
            else:
                out = new_name(OUT, "res")
                os.mkdir(out)
                got = make_with_inode(out, target, False)
                if got is None:
                    rep["cases"].append("%s %s/%s: no coincidence could be arranged" % (kind, relation, which))
                    continue
                os.rename(got, os.path.join(out, "kmers.counts"))
                for f in os.listdir(stale_src):
                    open(os.path.join(out, f), "wb").write(open(os.path.join(stale_src, f), "rb").read())
            probe = out if which == "path" else os.path.join(out, "kmers.counts")
            assert os.stat(probe).st_ino == target and os.stat(probe).st_dev != os.stat(inp).st_dev
            rep["coincidences"] += 1
        else:
            out = new_name(where, "res")
            if is_dir:
                shutil.copytree(stale_src, out)
            else:
                shutil.copy(stale_src, out)
        rc1, err1 = run(kind, inp, out)
        fresh = new_name(where, "fresh")
        rc2, err2 = run(kind, inp, fresh)
        c1, c2 = content(kind, out), content(kind, fresh)
        rep["cases"].append("%s %s/%s" % (kind, relation, which))
        if rc1 != rc2 or c1 != c2:
            diff = [k for k in c2 if c1.get(k) != c2.get(k)]
            rep["violations"].append({
                "kind": kind, "relation": relation + "/" + which,
                "desc": "kmertools %s into a location holding the output of an earlier run (%s; input dev %d inode %d, stale %s dev %d inode %d): exit %s %r, "
                        "into a fresh location: exit %s; differing: %s (%s lines against %s)" % (
                            kind, relation, os.stat(inp).st_dev, target, which, os.stat(where).st_dev,
                            os.stat(out if which == "path" else os.path.join(out, which)).st_ino if os.path.exists(out) else -1, rc1, err1[-160:], rc2, diff,
                            [None if c1.get(k) is None else len(c1[k]) for k in diff], [None if c2.get(k) is None else len(c2[k]) for k in diff])})
        for p in (out, fresh):
            if os.path.isdir(p):
                shutil.rmtree(p, ignore_errors=True)
            elif os.path.exists(p):
                os.unlink(p)
    if os.path.isdir(stale_src):
        shutil.rmtree(stale_src, ignore_errors=True)
    elif os.path.exists(stale_src):
        os.unlink(stale_src)

subprocess.run(["umount", IN], stderr=subprocess.DEVNULL)
subprocess.run(["umount", OUT], stderr=subprocess.DEVNULL)
finish()
