#!/bin/bash
# usage: confirm.sh <id>  -- confirms a seeded change in its worktree
id=$1; WT=/tmp/seed/$id; cd $WT || exit 2
export CARGO_TARGET_DIR=$WT/target WT
log=/tmp/seed/$id.confirm.log; : > $log
git diff --quiet && { echo "patch not applied" >> $log; git apply _out/patch.diff || exit 2; }
echo "== suite with patch" >> $log
cargo test --workspace --no-fail-fast --offline 2>&1 | grep -E "^test result|FAILED|failed" >> $log
passed=$(cargo test --workspace --no-fail-fast --offline 2>&1 | grep -E "^test result" | awk '{s+=$4; f+=$6} END {print s" passed "f" failed"}')
echo "suite: $passed" >> $log
echo "== cfg build" >> $log
RUSTFLAGS="--cfg kmertools_verif" CARGO_TARGET_DIR=$WT/target/vf cargo build --workspace --offline 2>&1 | tail -1 >> $log
echo "== demo with patch" >> $log
demo=$(ls _out/demo.sh 2>/dev/null)
timeout 1800 bash $demo >> $log.demo1 2>&1; rc1=$?
echo "demo with patch rc=$rc1" >> $log
git apply -R _out/patch.diff
timeout 1800 bash $demo >> $log.demo0 2>&1; rc0=$?
echo "demo without patch rc=$rc0" >> $log
git apply _out/patch.diff
echo "RESULT $id suite=[$passed] with=$rc1 without=$rc0" >> $log
