#!/usr/bin/env python3
"""mkprompt.py <prop> <suffix> <steer text file>: creates the scratch worktree /tmp/seed/<prop><suffix> of /repo and
writes the prompt for a fresh sub-agent to /tmp/seed/<prop><suffix>.prompt.txt (property text only, nothing of /verif
except one-line summaries of the changes seeded earlier for the property, so that ideas are not repeated)."""
import glob
import json
import os
import subprocess
import sys

prop, suf, steer = sys.argv[1], sys.argv[2], open(sys.argv[3]).read().strip()
here = os.path.dirname(os.path.abspath(__file__))
os.makedirs("/tmp/seed", exist_ok=True)
for f in ("confirm.sh", "PROMPT.tmpl"):
    if not os.path.exists("/tmp/seed/" + f):
        subprocess.check_call(["cp", os.path.join(here, f), "/tmp/seed/" + f])
wt = "/tmp/seed/%s%s" % (prop, suf)
if not os.path.isdir(wt):
    subprocess.check_call(["git", "-C", "/repo", "worktree", "add", "--detach", wt, "HEAD"], stdout=subprocess.DEVNULL)
p = None
for line in open(os.path.join(here, "..", "..", "properties.jsonl")):
    d = json.loads(line)
    if d["id"] == prop:
        p = d
text = "%s — %s\n\nStatement: %s\n\nQuantified over: %s" % (p["id"], p["title"], p["statement"], p["quantifier"]["text"])
earlier = []
for m in sorted(glob.glob(os.path.join(here, "..", "..", "seeded", prop + "-*", "meta.json"))):
    try:
        earlier.append('"%s"' % json.load(open(m)).get("summary", "")[:200])
    except Exception:
        pass
tmpl = open(os.path.join(here, "PROMPT.tmpl")).read().replace("@WT@", wt).replace("@PROP@", text)
tmpl += "\n\nAdditional steer for this round: earlier seeded defects for this property were: %s. Do NOT repeat those ideas or close variants. %s\n" % (" / ".join(earlier), steer)
open("/tmp/seed/%s%s.prompt.txt" % (prop, suf), "w").write(tmpl)
print(wt)
