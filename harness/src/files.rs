//! C06 (reader), C07 configuration part (counter), C08 (coverage): enumerations over generated files.
use crate::ctx::{guard, Ctx};
use crate::enumr::{fill, for_each_string, strings, S5};
use crate::model;
use crate::out::{hex, show, unhex, Violation};
use counter::CountComputer;
use coverage::CovComputer;
use flate2::write::GzEncoder;
use flate2::Compression;
use ktio::seq::{get_reader, SeqFormat, Sequences};
use std::collections::{BTreeMap, HashMap};
use std::io::Write;

fn viol(ctx: &mut Ctx, key: &str, size: usize, desc: String, argv: Vec<String>) {
    ctx.rep.violation(Violation {
        key: key.to_string(),
        size,
        desc,
        argv,
    });
}

// ------------------------------------------------------------------------------------------ C06

#[derive(Clone, Debug, PartialEq)]
pub struct Rec {
    pub header: String, // full header text after '>' / '@'
    pub bases: Vec<u8>,
}

impl Rec {
    fn id(&self) -> &str {
        self.header.split(|c: char| c.is_whitespace()).next().unwrap_or("")
    }
}

#[derive(Clone, Copy, Debug, PartialEq)]
pub enum Ser {
    FastaLine,       // one sequence line per record (an empty line when there are no bases)
    FastaWrap(usize), // lines of n bases, no line when there are no bases
    /// as FastaWrap, without the final line terminator: a last record without bases then ends the file with its
    /// header line, unterminated; LF and CR LF forms
    FastaWrapNoFinalNl(usize),
    FastaWrapCrlfNoFinalNl(usize),
    /// FASTQ with sequence and quality wrapped at n (the original format allows it and the pinned reader reads it);
    /// continuation lines of the quality start with '@' and '+' in turn
    FastqWrap(usize),
    FastaCrlf,
    FastaNoFinalNl,
    Fastq,
    FastqCrlf,
    FastqNoFinalNl,
    FastaCrlfNoFinalNl,
    FastqCrlfNoFinalNl,
}

impl Ser {
    fn is_fastq(self) -> bool {
        matches!(self, Ser::Fastq | Ser::FastqCrlf | Ser::FastqNoFinalNl | Ser::FastqCrlfNoFinalNl | Ser::FastqWrap(_))
    }
    fn code(self) -> String {
        match self {
            Ser::FastaLine => "fl".into(),
            Ser::FastaWrap(n) => format!("fw{}", n),
            Ser::FastaWrapNoFinalNl(n) => format!("fy{}", n),
            Ser::FastaWrapCrlfNoFinalNl(n) => format!("fz{}", n),
            Ser::FastqWrap(n) => format!("qw{}", n),
            Ser::FastaCrlf => "fc".into(),
            Ser::FastaNoFinalNl => "fn".into(),
            Ser::Fastq => "ql".into(),
            Ser::FastqCrlf => "qc".into(),
            Ser::FastqNoFinalNl => "qn".into(),
            Ser::FastaCrlfNoFinalNl => "fx".into(),
            Ser::FastqCrlfNoFinalNl => "qx".into(),
        }
    }
    fn parse(s: &str) -> Ser {
        match s {
            "fl" => Ser::FastaLine,
            "fc" => Ser::FastaCrlf,
            "fn" => Ser::FastaNoFinalNl,
            "ql" => Ser::Fastq,
            "qc" => Ser::FastqCrlf,
            "qn" => Ser::FastqNoFinalNl,
            "fx" => Ser::FastaCrlfNoFinalNl,
            "qx" => Ser::FastqCrlfNoFinalNl,
            w if w.starts_with("fy") => Ser::FastaWrapNoFinalNl(w[2..].parse().unwrap()),
            w if w.starts_with("fz") => Ser::FastaWrapCrlfNoFinalNl(w[2..].parse().unwrap()),
            w if w.starts_with("qw") => Ser::FastqWrap(w[2..].parse().unwrap()),
            w => Ser::FastaWrap(w[2..].parse().unwrap()),
        }
    }
}

pub fn serialise(recs: &[Rec], ser: Ser) -> (Vec<u8>, Vec<usize>) {
    // returns the text and the byte offsets at which records 1.. start (record boundaries)
    let mut t: Vec<u8> = Vec::new();
    let mut bounds = Vec::new();
    for (i, r) in recs.iter().enumerate() {
        if i > 0 {
            bounds.push(t.len());
        }
        match ser {
            Ser::FastaLine | Ser::FastaCrlf | Ser::FastaNoFinalNl | Ser::FastaCrlfNoFinalNl => {
                t.extend_from_slice(format!(">{}\n", r.header).as_bytes());
                t.extend_from_slice(&r.bases);
                t.push(b'\n');
            }
            Ser::FastaWrap(w) | Ser::FastaWrapNoFinalNl(w) | Ser::FastaWrapCrlfNoFinalNl(w) => {
                t.extend_from_slice(format!(">{}\n", r.header).as_bytes());
                for chunk in r.bases.chunks(w) {
                    t.extend_from_slice(chunk);
                    t.push(b'\n');
                }
            }
            Ser::FastqWrap(w) => {
                t.extend_from_slice(format!("@{}\n", r.header).as_bytes());
                for chunk in r.bases.chunks(w) {
                    t.extend_from_slice(chunk);
                    t.push(b'\n');
                }
                t.extend_from_slice(b"+\n");
                let qual: Vec<u8> = (0..r.bases.len()).map(|j| if j % w == 0 { [b'@', b'+', b'I'][(j / w + i) % 3] } else { b'!' + ((i + j) % 60) as u8 }).collect();
                for chunk in qual.chunks(w) {
                    t.extend_from_slice(chunk);
                    t.push(b'\n');
                }
            }
            Ser::Fastq | Ser::FastqCrlf | Ser::FastqNoFinalNl | Ser::FastqCrlfNoFinalNl => {
                t.extend_from_slice(format!("@{}\n", r.header).as_bytes());
                t.extend_from_slice(&r.bases);
                t.extend_from_slice(b"\n+\n");
                // quality strings may legally start with the characters that also mark records ('@', '+', '>')
                let lead = [b'@', b'+', b'I', b'>'][i % 4];
                t.extend((0..r.bases.len()).map(|j| if j == 0 { lead } else { b'!' + ((i + j) % 60) as u8 }));
                t.push(b'\n');
            }
        }
    }
    let strip_final = matches!(ser, Ser::FastaNoFinalNl | Ser::FastqNoFinalNl | Ser::FastaCrlfNoFinalNl | Ser::FastqCrlfNoFinalNl | Ser::FastaWrapNoFinalNl(_) | Ser::FastaWrapCrlfNoFinalNl(_));
    match ser {
        Ser::FastaCrlf | Ser::FastqCrlf | Ser::FastaCrlfNoFinalNl | Ser::FastqCrlfNoFinalNl | Ser::FastaWrapCrlfNoFinalNl(_) => {
            let mut u = Vec::with_capacity(t.len() + 16);
            let mut nb = Vec::new();
            let mut bi = 0;
            for (i, &b) in t.iter().enumerate() {
                if bi < bounds.len() && bounds[bi] == i {
                    nb.push(u.len());
                    bi += 1;
                }
                if b == b'\n' {
                    u.push(b'\r');
                }
                u.push(b);
            }
            if strip_final && u.ends_with(b"\r\n") {
                u.truncate(u.len() - 2);
            }
            (u, nb)
        }
        Ser::FastaNoFinalNl | Ser::FastqNoFinalNl | Ser::FastaWrapNoFinalNl(_) => {
            if t.last() == Some(&b'\n') {
                t.pop();
            }
            (t, bounds)
        }
        _ => (t, bounds),
    }
}

/// two records; the id of the second holds a multi-byte character whose first byte lies `delta` bytes from offset
/// `boundary` of the text (FASTA, one line per record)
fn boundary_id_case(boundary: usize, delta: i64, width: usize, container: &str) -> (Vec<Rec>, Vec<u8>) {
    let ch = match width {
        2 => "\u{e4}",
        3 => "\u{2192}",
        _ => "\u{1f9ec}",
    };
    // ">first\n" (7 bytes) + bases + "\n" + ">B" (2 bytes), then the character
    let len = (boundary as i64 + delta - 10) as usize;
    let recs = vec![
        Rec { header: "first".into(), bases: long_bases(len, 5) },
        Rec { header: format!("B{ch}cker_1 desc {ch}"), bases: b"ACGTNACG".to_vec() },
        Rec { header: format!("{ch}"), bases: b"TT".to_vec() },
    ];
    let (text, _) = serialise(&recs, Ser::FastaLine);
    let at = (boundary as i64 + delta) as usize;
    let bytes = match container {
        "plain" => text.clone(),
        "gz6" => gz_members(&[&text], 6),
        "gz0" => gz_members(&[&text], 0),
        // a member boundary inside the character
        _ => gz_members(&[&text[..at + 1], &text[at + 1..]], 6),
    };
    (recs, bytes)
}

fn gz_members(parts: &[&[u8]], level: u32) -> Vec<u8> {
    let mut out = Vec::new();
    for p in parts {
        let mut e = GzEncoder::new(Vec::new(), Compression::new(level));
        e.write_all(p).unwrap();
        out.extend_from_slice(&e.finish().unwrap());
    }
    out
}

const FA_SUFFIX: [&str; 3] = [".fa", ".fasta", ".fna"];
const FQ_SUFFIX: [&str; 2] = [".fq", ".fastq"];

/// read one file through the iterator and through seq_stats and compare with the generating list
fn c06_read(ctx: &mut Ctx, recs: &[Rec], ser: Ser, container: &str, bytes: &[u8], case_no: u64, argv: Vec<String>) {
    let suffix = if ser.is_fastq() { FQ_SUFFIX[(case_no % 2) as usize] } else { FA_SUFFIX[(case_no % 3) as usize] };
    let gz = container != "plain";
    // every fifth case sits in a directory whose name ends like a sequence file of the OTHER format (and compression):
    // only the file's own suffix decides
    let dir = if case_no % 5 == 0 {
        let d = format!("{}/c06dir{}{}", ctx.scratch, if ser.is_fastq() { ".fa" } else { ".fastq" }, if gz { "" } else { ".gz" });
        std::fs::create_dir_all(&d).expect("input dir");
        d
    } else {
        ctx.scratch.clone()
    };
    // the stem of every third file name holds extension-like components of the other format and of the other
    // compression ("sample.fq.contigs.fa"): only the suffix decides
    let stem = if case_no % 3 == 1 { if ser.is_fastq() { "c06.fa.gz.trimmed" } else { "c06.fastq.gz.contigs" } } else { "c06" };
    let path = format!("{}/{}{}{}", dir, stem, suffix, if gz { ".gz" } else { "" });
    let _ = std::fs::remove_file(&path);
    if case_no % 7 == 3 {
        // the name is a symbolic link to the file, which lives under another (suffix-less) name
        let real = format!("{}/c06-real-data", ctx.scratch);
        std::fs::write(&real, bytes).expect("write input");
        std::os::unix::fs::symlink(&real, &path).expect("symlink");
    } else {
        std::fs::write(&path, bytes).expect("write input");
    }
    if case_no % 2 == 0 {
        crate::vecs::side_cars(&path);
    }
    ctx.journal.note(|| format!("C06 {:?} ser={} container={} argv={:?}", recs, ser.code(), container, argv));
    ctx.rep.evaluations += 1;
    let size = bytes.len();
    let cap = |t: String| if t.len() > 80 { format!("{}...({} chars)", &t[..60], t.len()) } else { t };
    let what = format!("{} record(s) {:?} as {} in {} ({} bytes, suffix {}{})", recs.len(), recs.iter().take(6).map(|r| (cap(r.header.clone()), cap(show(&r.bases)))).collect::<Vec<_>>(), ser.code(), container, bytes.len(), suffix, if gz { ".gz" } else { "" });
    let fmt = match SeqFormat::get(&path) {
        Some(f) => f,
        None => return viol(ctx, "suffix-not-recognised", size, format!("SeqFormat::get({path:?}) = None"), argv),
    };
    let is_fq = matches!(fmt, SeqFormat::Fastq);
    if is_fq != ser.is_fastq() {
        return viol(ctx, "suffix-wrong-format", size, format!("SeqFormat::get({path:?}) chose the wrong format"), argv);
    }
    let got = guard(|| {
        let reader = get_reader(&path).unwrap();
        let seqs = Sequences::new(fmt, reader).unwrap();
        let v: Vec<(usize, String, Vec<u8>)> = seqs.map(|s| (s.n, s.id, s.seq)).collect();
        let reader = get_reader(&path).unwrap();
        let st = Sequences::seq_stats(fmt, reader);
        (v, st.seq_count, st.total_length)
    });
    let (v, sc, tl) = match got {
        Err(p) => return viol(ctx, "panic", size, format!("reading {what}: panicked: {p}"), argv),
        Ok(t) => t,
    };
    let exp: Vec<(usize, String, Vec<u8>)> = recs.iter().enumerate().map(|(i, r)| (i, r.id().to_string(), r.bases.clone())).collect();
    if v != exp {
        let key = if v.len() < exp.len() && v[..] == exp[..v.len()] {
            "records-truncated"
        } else if v.len() != exp.len() {
            "record-count"
        } else if v.iter().zip(&exp).any(|(a, b)| a.0 != b.0) {
            "record-numbering"
        } else if v.iter().zip(&exp).any(|(a, b)| a.1 != b.1) {
            "record-id"
        } else {
            "record-bases"
        };
        let first_bad = v.iter().zip(&exp).position(|(a, b)| a != b).unwrap_or(v.len().min(exp.len()));
        return viol(ctx, key, size, format!("reading {what}: iterator returned {} records; first difference at record {}: got {:?}, expected {:?}", v.len(), first_bad, v.get(first_bad).map(|t| (t.0, cap(t.1.clone()), cap(show(&t.2)))), exp.get(first_bad).map(|t| (t.0, cap(t.1.clone()), cap(show(&t.2))))), argv);
    }
    let total: usize = recs.iter().map(|r| r.bases.len()).sum();
    if sc != recs.len() || tl != total {
        return viol(ctx, "stats", size, format!("reading {what}: seq_stats = ({sc} records, {tl} bases), iteration delivered ({}, {})", recs.len(), total), argv);
    }
    if !recs.is_empty() {
        ctx.rep.nontrivial += 1;
    }
}

fn c06_huge_total(ctx: &mut Ctx, fastq: bool, members: usize) {
    use std::io::Write;
    let (nrec, len) = (1024usize, 4096usize);
    let argv = vec!["case".to_string(), "C06huge".to_string(), (fastq as u8).to_string(), members.to_string()];
    ctx.journal.note(|| format!("C06 huge total fastq={fastq} members={members}"));
    let mut text: Vec<u8> = Vec::with_capacity(nrec * (2 * len + 20));
    for i in 0..nrec {
        let bases = long_bases(len, i);
        if fastq {
            text.extend_from_slice(format!("@r{} d\n", i).as_bytes());
            text.extend_from_slice(&bases);
            text.extend_from_slice(b"\n+\n");
            text.extend(std::iter::repeat(b'I').take(len));
            text.push(b'\n');
        } else {
            text.extend_from_slice(format!(">r{} d\n", i).as_bytes());
            text.extend_from_slice(&bases);
            text.push(b'\n');
        }
    }
    let mut e = flate2::write::GzEncoder::new(Vec::new(), flate2::Compression::fast());
    e.write_all(&text).unwrap();
    let member = e.finish().unwrap();
    let path = format!("{}/c06huge.{}.gz", ctx.scratch, if fastq { "fq" } else { "fa" });
    {
        let mut f = std::io::BufWriter::new(std::fs::File::create(&path).unwrap());
        for _ in 0..members {
            f.write_all(&member).unwrap();
        }
    }
    let fmt = SeqFormat::get(&path).unwrap();
    ctx.rep.evaluations += 1;
    let got = guard(|| {
        let seqs = Sequences::new(SeqFormat::get(&path).unwrap(), get_reader(&path).unwrap()).unwrap();
        let (mut n, mut total, mut numbering_ok) = (0usize, 0u64, true);
        for s in seqs {
            numbering_ok &= s.n == n;
            n += 1;
            total += s.seq.len() as u64;
        }
        let st = Sequences::seq_stats(fmt, get_reader(&path).unwrap());
        (n, total, numbering_ok, st.seq_count, st.total_length as u64)
    });
    let _ = std::fs::remove_file(&path);
    let what = format!("{} gzip members of {nrec} {} records of {len} bases ({} bases in all)", members, if fastq { "FASTQ" } else { "FASTA" }, members * nrec * len);
    match got {
        Err(p) => viol(ctx, "panic", 1 << 30, format!("reading {what}: panicked: {p}"), argv),
        Ok((n, total, numbering_ok, sc, tl)) => {
            let (en, et) = (members * nrec, (members * nrec * len) as u64);
            if n != en || total != et || !numbering_ok {
                viol(ctx, "record-count", 1 << 30, format!("reading {what}: the iterator delivered {n} records with {total} bases (numbered without gaps: {numbering_ok}), expected {en} and {et}"), argv)
            } else if sc != en || tl != et {
                viol(ctx, "stats", 1 << 30, format!("reading {what}: seq_stats = ({sc} records, {tl} bases), iteration delivered ({n}, {total})"), argv)
            } else {
                ctx.rep.nontrivial += 1;
            }
        }
    }
}

fn rec_variants() -> Vec<Rec> {
    let mut v = Vec::new();
    for h in ["a", "b12 desc >more @x +y", ""] {
        for b in [&b""[..], b"A", b"CG", b"ACGTN"] {
            if h.is_empty() && b.is_empty() {
                // a record with neither a header text nor bases is the underlying parser's own end-of-input marker;
                // whether such a "record" is well-formed is not something the property settles: left out
                continue;
            }
            v.push(Rec {
                header: h.to_string(),
                bases: b.to_vec(),
            });
        }
    }
    // a header line that starts with a blank: no id, but a description (with and without bases)
    for b in [&b""[..], b"CG"] {
        v.push(Rec { header: " unplaced scaffold".to_string(), bases: b.to_vec() });
    }
    // ids in the spellings sequencers and pipelines use (mate suffixes, index tags, version dots, pipes): the id is the
    // first word of the header, whatever it looks like
    v.push(Rec { header: "HWUSI-EAS100R:6:73:941:1973#0/1 mate".to_string(), bases: b"CG".to_vec() });
    v.push(Rec { header: "gi|12345|ref|NC_0001.2|/2".to_string(), bases: b"A".to_vec() });
    v
}

fn rec_lists(maxn: usize) -> Vec<Vec<Rec>> {
    let vars = rec_variants();
    let mut lists: Vec<Vec<Rec>> = vec![vec![]];
    let mut prev: Vec<Vec<Rec>> = vec![vec![]];
    for _ in 0..maxn {
        let mut next = Vec::new();
        for l in &prev {
            for r in &vars {
                let mut l2 = l.clone();
                l2.push(r.clone());
                next.push(l2);
            }
        }
        lists.extend(next.iter().cloned());
        prev = next;
    }
    lists
}

fn list_code(recs: &[Rec]) -> String {
    // index of each record in rec_variants()
    let vars = rec_variants();
    recs.iter().map(|r| vars.iter().position(|v| v == r).map(|i| i.to_string()).unwrap_or_else(|| "x".into())).collect::<Vec<_>>().join(".")
}

fn list_from_code(code: &str) -> Vec<Rec> {
    let vars = rec_variants();
    if code.is_empty() {
        return vec![];
    }
    code.split('.').map(|i| vars[i.parse::<usize>().unwrap()].clone()).collect()
}

/// all containers for one serialised text
fn c06_containers(ctx: &mut Ctx, recs: &[Rec], ser: Ser, case_no: &mut u64, full: bool) {
    let (text, bounds) = serialise(recs, ser);
    let base_argv = |cont: &str| vec!["case".to_string(), "C06".to_string(), list_code(recs), ser.code(), cont.to_string()];
    *case_no += 1;
    c06_read(ctx, recs, ser, "plain", &text, *case_no, base_argv("plain"));
    for level in [6u32, 0] {
        *case_no += 1;
        let g = gz_members(&[&text], level);
        let c = format!("gz1-l{}", level);
        c06_read(ctx, recs, ser, &c, &g, *case_no, base_argv(&c));
        // history at one path: the same records in reverse order (same serialised size) written to the SAME path and
        // read straight afterwards - what the reader returns must depend on the file as it is now
        if recs.len() >= 2 {
            let rev: Vec<Rec> = recs.iter().rev().cloned().collect();
            if rev != recs {
                let (t2, _) = serialise(&rev, ser);
                let g2 = gz_members(&[&t2], level);
                let mut a = base_argv(&c);
                a[1] = "C06hist".to_string();
                c06_read(ctx, &rev, ser, &c, &g2, *case_no, a);
                ctx.rep.count("files.same_path_history", 1);
            }
        }
    }
    // an empty member at the end (every bgzip file ends with an empty EOF block) and at the beginning
    for cont in ["gz-emptylast", "gz-emptyfirst", "gz-emptylast-l0", "gz-flags"] {
        *case_no += 1;
        let g = container_bytes(&text, &bounds, cont);
        c06_read(ctx, recs, ser, cont, &g, *case_no, base_argv(cont));
        ctx.rep.count("files.multi_member", 1);
    }
    // member boundary at every record boundary
    for (bi, &b) in bounds.iter().enumerate() {
        for level in [6u32, 0] {
            *case_no += 1;
            let g = gz_members(&[&text[..b], &text[b..]], level);
            let c = format!("gz2-rec{}-l{}", bi, level);
            c06_read(ctx, recs, ser, &c, &g, *case_no, base_argv(&c));
            ctx.rep.count("files.multi_member", 1);
        }
    }
    if bounds.len() == 2 {
        *case_no += 1;
        let g = gz_members(&[&text[..bounds[0]], &text[bounds[0]..bounds[1]], &text[bounds[1]..]], 6);
        c06_read(ctx, recs, ser, "gz3-rec", &g, *case_no, base_argv("gz3-rec"));
        ctx.rep.count("files.multi_member", 1);
        // an empty member in the middle
        *case_no += 1;
        let g = gz_members(&[&text[..bounds[0]], &[], &text[bounds[0]..]], 6);
        c06_read(ctx, recs, ser, "gz3-emptymid", &g, *case_no, base_argv("gz3-emptymid"));
        ctx.rep.count("files.multi_member", 1);
    }
    if full {
        // member boundary at every byte offset of the first 40 bytes
        for off in 1..text.len().min(41) {
            *case_no += 1;
            let g = gz_members(&[&text[..off], &text[off..]], 6);
            let c = format!("gz2-off{}", off);
            c06_read(ctx, recs, ser, &c, &g, *case_no, base_argv(&c));
            ctx.rep.count("files.multi_member", 1);
        }
    }
}

fn container_bytes(text: &[u8], bounds: &[usize], cont: &str) -> Vec<u8> {
    if cont == "plain" {
        return text.to_vec();
    }
    let level: u32 = if cont.ends_with("-l0") { 0 } else { 6 };
    if cont.starts_with("gz1") {
        return gz_members(&[text], level);
    }
    if let Some(rest) = cont.strip_prefix("gz2-rec") {
        let bi: usize = rest.split('-').next().unwrap().parse().unwrap();
        return gz_members(&[&text[..bounds[bi]], &text[bounds[bi]..]], level);
    }
    if cont == "gz3-rec" {
        return gz_members(&[&text[..bounds[0]], &text[bounds[0]..bounds[1]], &text[bounds[1]..]], 6);
    }
    if cont == "gz-emptylast" {
        return gz_members(&[text, &[]], 6);
    }
    if cont == "gz-emptylast-l0" {
        return gz_members(&[text, &[]], 0);
    }
    if cont == "gz-emptyfirst" {
        return gz_members(&[&[], text], 6);
    }
    if cont == "gz-flags" {
        // optional header fields of the gzip format (file name, comment, extra field), as gzip(1) and bgzip write them
        let mut out = Vec::new();
        let half = text.len() / 2;
        for (i, p) in [&text[..half], &text[half..]].iter().enumerate() {
            let b = flate2::GzBuilder::new().filename(format!("reads{}.fa", i)).comment("written by a sequencer > @ +").extra(vec![66, 67, 2, 0, 0x1b, 0]).mtime(1_700_000_000);
            let mut e = b.write(Vec::new(), Compression::new(6));
            e.write_all(p).unwrap();
            out.extend_from_slice(&e.finish().unwrap());
        }
        return out;
    }
    if cont == "gz3-emptymid" {
        return gz_members(&[&text[..bounds[0]], &[], &text[bounds[0]..]], 6);
    }
    if let Some(off) = cont.strip_prefix("gz2-off") {
        let off: usize = off.parse().unwrap();
        return gz_members(&[&text[..off], &text[off..]], 6);
    }
    if cont == "gz2-mid" {
        return gz_members(&[&text[..text.len() / 2], &text[text.len() / 2..]], 6);
    }
    panic!("unknown container {}", cont)
}

pub fn long_bases(len: usize, salt: usize) -> Vec<u8> {
    (0..len).map(|i| b"ACGTTGCANA"[(i * 7 + i / 10 + salt) % 10]).collect()
}

pub fn c06(ctx: &mut Ctx) {
    let lists = rec_lists(ctx.pick(3, 4));
    let fasta_sers = [Ser::FastaLine, Ser::FastaWrap(1), Ser::FastaWrap(2), Ser::FastaWrap(3), Ser::FastaCrlf, Ser::FastaNoFinalNl, Ser::FastaCrlfNoFinalNl, Ser::FastaWrapNoFinalNl(2), Ser::FastaWrapCrlfNoFinalNl(3)];
    let fastq_sers = [Ser::Fastq, Ser::FastqCrlf, Ser::FastqNoFinalNl, Ser::FastqCrlfNoFinalNl, Ser::FastqWrap(2), Ser::FastqWrap(3)];
    let mut sh = ctx.shard;
    let mut case_no = 0u64;
    let mut n_lists = 0u64;
    for l in &lists {
        if !sh.mine() {
            continue;
        }
        n_lists += 1;
        for ser in fasta_sers {
            let full = l.len() <= 2 && ser == Ser::FastaLine;
            c06_containers(ctx, l, ser, &mut case_no, full);
        }
        if l.iter().all(|r| !r.bases.is_empty()) {
            for ser in fastq_sers {
                let full = l.len() <= 2 && ser == Ser::Fastq;
                c06_containers(ctx, l, ser, &mut case_no, full);
            }
        }
    }
    ctx.rep.count("record_lists", n_lists);
    // long records around buffer edges
    let lens: Vec<usize> = vec![8190, 8191, 8192, 8193, 8194, 32767, 32768, 32769, 65535, 65536, 65537, 70000];
    for &len in &lens {
        for nrec in [1usize, 2] {
            for ser in [Ser::FastaLine, Ser::FastaWrap(60), Ser::Fastq, Ser::FastaCrlf] {
                for cont in ["plain", "gz1-l6", "gz2-mid", "gz2-rec0-l6"] {
                    if cont == "gz2-rec0-l6" && nrec == 1 {
                        continue;
                    }
                    if !sh.mine() {
                        continue;
                    }
                    let recs: Vec<Rec> = (0..nrec)
                        .map(|i| Rec {
                            header: format!("long{} len={}", i, len + i),
                            bases: long_bases(len + i, i),
                        })
                        .collect();
                    let (text, bounds) = serialise(&recs, ser);
                    let bytes = container_bytes(&text, &bounds, cont);
                    case_no += 1;
                    let argv = vec!["case".to_string(), "C06long".to_string(), len.to_string(), nrec.to_string(), ser.code(), cont.to_string()];
                    c06_read(ctx, &recs, ser, cont, &bytes, case_no, argv);
                    ctx.rep.count("files.long_records", 1);
                }
            }
        }
    }
    // length sweep of the FIRST record: every length up to 64, then a dense grid up to 70 000 (all residues modulo the
    // usual buffer sizes get hit), followed by a short second record
    {
        let mut lens: Vec<usize> = (1..=64).collect();
        let mut l = 65usize;
        let mut i = 0usize;
        let step = ctx.pick(97usize, 23);
        while l <= 70_000 {
            lens.push(l);
            i += 1;
            l += step + (i % 7);
        }
        // every length that puts a line terminator of the first record (after the bases, and - FASTQ - after the
        // quality line, which sits at twice the length) within a few bytes of a 4 KiB ... 64 KiB buffer edge
        for b in [4096usize, 8192, 16_384, 32_768, 65_536] {
            lens.extend(b - 80..=b + 8);
            lens.extend(b / 2 - 50..=b / 2 + 8);
        }
        lens.sort();
        lens.dedup();
        for &len in &lens {
            for ser in [Ser::FastaLine, Ser::Fastq, Ser::FastqCrlf, Ser::FastaCrlf] {
                for cont in ["plain", "gz1-l6"] {
                    if !sh.mine() {
                        continue;
                    }
                    let recs = vec![Rec { header: format!("first len={}", len), bases: long_bases(len, len) }, Rec { header: "second".into(), bases: b"ACGTN".to_vec() }];
                    let (text, bounds) = serialise(&recs, ser);
                    let bytes = container_bytes(&text, &bounds, cont);
                    case_no += 1;
                    let argv = vec!["case".to_string(), "C06len".to_string(), len.to_string(), ser.code(), cont.to_string()];
                    c06_read(ctx, &recs, ser, cont, &bytes, case_no, argv);
                    ctx.rep.count("files.length_sweep", 1);
                }
            }
        }
    }
    // many records (beyond any plausible look-ahead or batch size inside a reader)
    for nrec in [1025usize, 2049, 5000, 70_000, 99, 100, 101, 999, 1000, 1001, 9_999, 10_000, 10_001, 100_000] {
        for ser in [Ser::FastaLine, Ser::FastaWrap(3), Ser::Fastq] {
            for cont in ["plain", "gz1-l6", "gz2-mid"] {
                if !sh.mine() || (nrec > 5000 && (cont == "gz2-mid" || ser == Ser::FastaWrap(3))) {
                    continue;
                }
                let recs: Vec<Rec> = (0..nrec).map(|i| Rec { header: format!("r{} d", i), bases: long_bases(1 + i % 9, i) }).collect();
                let (text, bounds) = serialise(&recs, ser);
                let bytes = container_bytes(&text, &bounds, cont);
                case_no += 1;
                let argv = vec!["case".to_string(), "C06many".to_string(), nrec.to_string(), ser.code(), cont.to_string()];
                c06_read(ctx, &recs, ser, cont, &bytes, case_no, argv);
                ctx.rep.count("files.many_records", 1);
            }
        }
    }
    // more bases in one file than 32 bits can count: a multi-member gzip whose members are ordinary (1024 records of
    // 4096 bases each), read once by the iterator and once by the statistics pass, both streaming
    for (fastq, members) in [(false, 1024usize), (true, 1025)] {
        if sh.mine() {
            c06_huge_total(ctx, fastq, members);
            ctx.rep.count("files.huge_total", 1);
        }
    }
    // very long header lines (id and description beyond the usual 8 KiB line buffers)
    for (idlen, desclen) in [(10usize, 9000usize), (9000, 0), (8191, 1), (70_000, 70_000)] {
        for ser in [Ser::FastaLine, Ser::Fastq, Ser::FastaCrlf] {
            for cont in ["plain", "gz1-l6"] {
                if !sh.mine() {
                    continue;
                }
                let id: String = (0..idlen).map(|i| (b'a' + (i % 26) as u8) as char).collect();
                let header = if desclen > 0 { format!("{} {}", id, "d".repeat(desclen)) } else { id.clone() };
                let recs = vec![Rec { header, bases: b"ACGTN".to_vec() }, Rec { header: "second x".into(), bases: b"GG".to_vec() }];
                let (text, bounds) = serialise(&recs, ser);
                let bytes = container_bytes(&text, &bounds, cont);
                case_no += 1;
                let argv = vec!["case".to_string(), "C06header".to_string(), idlen.to_string(), desclen.to_string(), ser.code(), cont.to_string()];
                c06_read(ctx, &recs, ser, cont, &bytes, case_no, argv);
                ctx.rep.count("files.long_headers", 1);
            }
        }
    }
    // member boundaries at chosen offsets of the COMPRESSED file: the first member is sized (by tuning one record's
    // length) so that it ends within a few bytes of a multiple of the usual I/O buffer sizes (8 KiB, 32 KiB, 64 KiB)
    {
        let mut targets: Vec<usize> = Vec::new();
        for m in [8192usize, 16384, 24576, 32768, 65536] {
            for d in -3i64..=3 {
                targets.push((m as i64 + d) as usize);
            }
        }
        for level in [0u32, 6] {
            for fastq in [false, true] {
                if !sh.mine() {
                    continue;
                }
                // for every buffer size m: bisect the record length at which the member size reaches m - 3, then walk
                // upwards and remember the first length that produces each wanted size
                let ser = if fastq { Ser::Fastq } else { Ser::FastaLine };
                let maxn = if level == 0 { 66_000 } else if fastq { 170_000 } else { 300_000 };
                let all = long_bases(maxn + 8, 3);
                let size_of = |n: usize| -> usize {
                    let rec = Rec { header: "first member".into(), bases: all[..n].to_vec() };
                    let (text, _) = serialise(&[rec], ser);
                    gz_members(&[&text], level).len()
                };
                let mut found: std::collections::BTreeMap<usize, usize> = std::collections::BTreeMap::new();
                for m in [8192usize, 16384, 24576, 32768, 65536] {
                    let (mut lo, mut hi) = (1usize, maxn);
                    if size_of(hi) < m - 3 {
                        continue;
                    }
                    while lo < hi {
                        let mid = (lo + hi) / 2;
                        if size_of(mid) < m - 3 {
                            lo = mid + 1;
                        } else {
                            hi = mid;
                        }
                    }
                    let mut n = lo.saturating_sub(12).max(1);
                    let mut steps = 0;
                    while n <= maxn && steps < 400 {
                        let sz = size_of(n);
                        if sz > m + 3 && n > lo + 40 {
                            break;
                        }
                        if targets.contains(&sz) {
                            found.entry(sz).or_insert(n);
                        }
                        n += 1;
                        steps += 1;
                    }
                }
                for (&sz, &n) in &found {
                    let first = Rec { header: "first member".into(), bases: all[..n].to_vec() };
                    let tail = vec![Rec { header: "b second".into(), bases: b"ACGTNACG".to_vec() }, Rec { header: "c".into(), bases: b"TT".to_vec() }];
                    let (t1, _) = serialise(&[first.clone()], ser);
                    let (t2, _) = serialise(&tail[..1], ser);
                    let (t3, _) = serialise(&tail[1..], ser);
                    for three in [false, true] {
                        let bytes = if three { gz_members(&[&t1, &t2, &t3], level) } else {
                            let mut t23 = t2.clone();
                            t23.extend_from_slice(&t3);
                            gz_members(&[&t1, &t23], level)
                        };
                        let mut recs = vec![first.clone()];
                        recs.extend(tail.iter().cloned());
                        case_no += 1;
                        let cont = format!("gz-first-member-{}-bytes-l{}-{}", sz, level, if three { "3m" } else { "2m" });
                        let argv = vec!["case".to_string(), "C06size".to_string(), n.to_string(), (fastq as u8).to_string(), level.to_string(), (three as u8).to_string()];
                        c06_read(ctx, &recs, ser, &cont, &bytes, case_no, argv);
                        ctx.rep.count("files.member_size_sweep", 1);
                    }
                }
                ctx.rep.count("member_sizes_hit", found.len() as u64);
            }
        }
    }
    // ids with multi-byte characters that lie across the I/O buffer boundaries of the text (and across a gzip member
    // boundary): the reader must hand the id out as it is in the file
    for boundary in [4096usize, 8192, 16384, 24576, 32768, 65536, 131072] {
        for delta in [-3i64, -2, -1, 0] {
            for width in [2usize, 3, 4] {
                for container in ["plain", "gz6", "gz0", "gz-cut"] {
                    if !sh.mine() {
                        continue;
                    }
                    let (recs, bytes) = boundary_id_case(boundary, delta, width, container);
                    case_no += 1;
                    let argv = vec!["case".to_string(), "C06idb".to_string(), boundary.to_string(), delta.to_string(), width.to_string(), container.to_string()];
                    let label = if container == "plain" { "plain".to_string() } else { format!("{container}-id-char-at-{boundary}{delta:+}") };
                    c06_read(ctx, &recs, Ser::FastaLine, &label, &bytes, case_no, argv);
                    ctx.rep.count("files.id_characters_at_buffer_boundaries", 1);
                }
            }
        }
    }
    // suffix table
    if ctx.shard.is_first() {
        for (name, exp) in [
            ("x.fa", Some(false)), ("x.fasta", Some(false)), ("x.fna", Some(false)), ("x.fq", Some(true)), ("x.fastq", Some(true)),
            ("x.fa.gz", Some(false)), ("x.fasta.gz", Some(false)), ("x.fna.gz", Some(false)), ("x.fq.gz", Some(true)), ("x.fastq.gz", Some(true)),
            ("dir.fq/x.fa", Some(false)), ("dir.fa/y.fastq.gz", Some(true)),
        ] {
            ctx.rep.evaluations += 1;
            let got = SeqFormat::get(name).map(|f| matches!(f, SeqFormat::Fastq));
            if got != exp {
                viol(ctx, "suffix-table", 0, format!("SeqFormat::get({name:?}) = {:?} (is_fastq), expected {:?}", got, exp), vec!["case".into(), "C06suffix".into()]);
            }
            ctx.rep.nontrivial += 1;
        }
        ctx.rep.sample("records [(\"a\",\"\"), (\"b12 desc more\",\"ACGTN\")] as wrapped FASTA width 2, gzip with a member boundary at the record boundary".to_string());
        ctx.rep.sample("records [(\"a\",\"CG\")] as FASTQ, gzip split into two members at byte offset 7".to_string());
        ctx.rep.sample("two records of 32768 and 32769 bases as CRLF FASTA, gzip split in the middle".to_string());
        ctx.rep.notes.push(format!("C06: every list of 0..={} records from 11 variants (3 headers incl. an empty one x base lengths 0,1,2,5, without the header-less base-less one) x 6 FASTA and 3 FASTQ serialisations x plain / gzip (compressed, stored) / member boundary at every record boundary / at every byte offset of the first 40 bytes (lists of <= 2 records); long records at buffer edges; read through the iterator and seq_stats", ctx.pick(3, 4)));
    }
}

// ------------------------------------------------------------------------------------------ C07 (configurations)

pub fn write_fasta(path: &str, records: &[Vec<u8>]) {
    crate::vecs::write_fasta(path, records)
}

fn read_counts(path: &str) -> Result<Vec<(String, u64)>, String> {
    let text = std::fs::read_to_string(path).map_err(|e| format!("{path}: {e}"))?;
    let mut v = Vec::new();
    for line in text.lines() {
        let mut it = line.split('\t');
        let k = it.next().ok_or("empty line")?.to_string();
        let c: u64 = it.next().ok_or_else(|| format!("line {line:?} has no count"))?.parse().map_err(|_| format!("bad count in {line:?}"))?;
        if it.next().is_some() {
            return Err(format!("line {line:?} has extra fields"));
        }
        v.push((k, c));
    }
    Ok(v)
}


/// one complete run of the counter compared with the model; shared with the scheduler harness
pub fn check_counter_output(dir: &str, records: &[Vec<u8>], k: usize, acgt: bool, delete: bool, grid: (u64, u64)) -> Result<(), (String, String)> {
    check_counter_output_in(dir, records, k, acgt, delete, grid, true)
}

/// `whole_dir`: no temp file at all may be left after merge(true); otherwise only the files of this run's own
/// chunk x partition grid are judged (files of an earlier run outside that grid are not this run's business)
pub fn check_counter_output_in(dir: &str, records: &[Vec<u8>], k: usize, acgt: bool, delete: bool, grid: (u64, u64), whole_dir: bool) -> Result<(), (String, String)> {
    let exp = model::counts(records, k);
    let lines = read_counts(&format!("{dir}/kmers.counts")).map_err(|e| ("unparsable-counts".to_string(), e))?;
    let mut got: BTreeMap<u128, u64> = BTreeMap::new();
    for (kt, c) in &lines {
        let code = if acgt {
            if kt.len() != k {
                return Err(("acgt-rendering".into(), format!("k-mer text {kt:?} does not have {k} letters")));
            }
            model::code_of(kt.as_bytes()).ok_or_else(|| ("acgt-rendering".to_string(), format!("k-mer text {kt:?} is not over ACGT")))?
        } else {
            kt.parse::<u128>().map_err(|_| ("unparsable-counts".to_string(), format!("k-mer {kt:?} is not a number")))?
        };
        if got.insert(code, *c).is_some() {
            return Err(("duplicate-line".into(), format!("k-mer {} ({}) appears on more than one line: {:?}", code, show(&model::text_of(code, k)), lines)));
        }
    }
    if got != exp {
        let sum_g: u64 = got.values().sum();
        let sum_e: u64 = exp.values().sum();
        let key = if got.keys().ne(exp.keys()) { "kmer-set" } else if sum_g < sum_e { "counts-lost" } else { "counts-wrong" };
        return Err((key.into(), format!("kmers.counts = {:?}, expected {:?} (sum {} vs {})", got, exp, sum_g, sum_e)));
    }
    // temp files
    let (chunks, parts) = grid;
    for p in 0..parts {
        for c in 0..chunks {
            let f = format!("{dir}/temp_kmers.part_{p}_chunk_{c}");
            let exists = std::path::Path::new(&f).exists();
            if delete && exists {
                return Err(("temp-file-survives".into(), format!("{f} still exists after merge(true)")));
            }
        }
    }
    if delete && whole_dir {
        for e in std::fs::read_dir(dir).map_err(|e| ("io".to_string(), e.to_string()))? {
            let name = e.unwrap().file_name().to_string_lossy().to_string();
            if name.starts_with("temp_kmers") {
                return Err(("temp-file-survives".into(), format!("{name} still exists after merge(true)")));
            }
        }
    }
    Ok(())
}

fn c07_run(ctx: &mut Ctx, records: &[Vec<u8>], k: usize, threads: usize, mem: f64, acgt: bool, delete: bool, tag: &str) {
    let dir = format!("{}/c07", ctx.scratch);
    // the counts table of the previous case stays in place (tables get longer and shorter over one directory); only
    // the temp chunk files of earlier merge(false) cases are cleared, because "no temp file survives" is judged on the
    // whole directory
    std::fs::create_dir_all(&dir).unwrap();
    if let Ok(rd) = std::fs::read_dir(&dir) {
        for e in rd.flatten() {
            if e.file_name().to_string_lossy().starts_with("temp_kmers") {
                let _ = std::fs::remove_file(e.path());
            }
        }
    }
    // every third case (by content, so that a replay does the same) finds temp chunk files of an earlier, different
    // run in the directory: a grid of 24 partitions x 6 chunks holding two k-mers that are not in the input
    let stale = (records.len() + records.iter().map(|r| r.len()).sum::<usize>() + threads + k) % 3 == 0;
    if stale {
        for p in 0..24 {
            for c in 0..6 {
                std::fs::write(format!("{dir}/temp_kmers.part_{p}_chunk_{c}"), b"1\t5\n2\t9\n").unwrap();
            }
        }
    }
    let inp = format!("{}/c07_in.fa", ctx.scratch);
    write_fasta(&inp, records);
    let argv = vec!["case".to_string(), "C07".to_string(), records.iter().map(|r| hex(r)).collect::<Vec<_>>().join(","), k.to_string(), threads.to_string(), format!("{:e}", mem), (acgt as u8).to_string(), (delete as u8).to_string()];
    ctx.journal.note(|| format!("C07 {:?}", argv));
    ctx.rep.evaluations += 1;
    let r = guard(|| {
        let mut c = CountComputer::new(inp.clone(), dir.clone(), k);
        c.set_threads(threads);
        c.set_max_memory(mem);
        c.set_acgt_output(acgt);
        c.count();
        c.merge(delete);
        c.verif_grid()
    });
    let size = records.iter().map(|r| r.len() + 1).sum::<usize>() * 64 + threads;
    let what = format!("count {tag} records {:?} k={k} threads={threads} memory={mem:e} acgt={acgt} delete={delete}", records.iter().map(|r| show(r)).collect::<Vec<_>>());
    let grid = match r {
        Err(p) => return viol(ctx, "panic", size, format!("{what}: panicked: {p}"), argv),
        Ok(g) => g,
    };
    ctx.rep.outcomes.insert(format!("chunks={} parts={}", grid.0, grid.1));
    if let Err((key, msg)) = check_counter_output_in(&dir, records, k, acgt, delete, grid, !stale) {
        return viol(ctx, &key, size, format!("{what} (chunks={}, parts={}){}: {msg}", grid.0, grid.1, if stale { ", temp files of an earlier run in the directory" } else { "" }), argv);
    }
    if records.iter().any(|r| r.len() >= k) {
        ctx.rep.nontrivial += 1;
    }
    if grid.0 > 1 {
        ctx.rep.count("runs.multi_chunk", 1);
    }
    if grid.1 > threads as u64 {
        ctx.rep.count("runs.parts_above_threads", 1);
    }
}

pub fn c07_configs(ctx: &mut Ctx) {
    // alphabets that contain both strands (A/T, C/G): canonical choice and partition routing are exercised
    let mut lists: Vec<Vec<Vec<u8>>> = vec![vec![]];
    for a in strings(S5, 0, ctx.pick(4, 5)) {
        lists.push(vec![a]);
    }
    let p1 = strings(b"ACTN", 0, 2);
    let p2 = strings(b"ATN", 0, 3);
    let p3 = strings(b"ACN", 0, 3);
    let mut pair_sets: Vec<&Vec<Vec<u8>>> = vec![&p1, &p2];
    let p4 = strings(S5, 0, 2);
    if ctx.thorough() {
        pair_sets.push(&p3);
        pair_sets.push(&p4);
    }
    let mut seen = std::collections::BTreeSet::new();
    for set in pair_sets {
        for a in set {
            for b in set {
                if seen.insert((a.clone(), b.clone())) {
                    lists.push(vec![a.clone(), b.clone()]);
                }
            }
        }
    }
    if ctx.thorough() {
        let s2 = strings(b"AGTN", 0, 2);
        for a in &s2 {
            for b in &s2 {
                for c in &s2 {
                    lists.push(vec![a.clone(), b.clone(), c.clone()]);
                }
            }
        }
    }
    let mut sh = ctx.shard;
    // (threads, memory ceiling): 6 GB = one chunk; tiny ceilings = base limit 0/1/2 bases and dozens of partitions
    let cfgs: Vec<(usize, f64)> = vec![(1, 6.0), (2, 6.0), (4, 1e-8), (2, 4e-9), (16, 2e-8), (3, 1e-9), (1, 4e-9), (1, 1.7e-8)];
    let mut n = 0u64;
    for l in &lists {
        for k in 1..=ctx.pick(2, 3) {
            for (ci, &(threads, mem)) in cfgs.iter().enumerate() {
                if !sh.mine() {
                    continue;
                }
                let acgt = (ci + k) % 2 == 0;
                let delete = (ci + l.len()) % 2 == 0;
                c07_run(ctx, l, k, threads, mem, acgt, delete, "small");
                n += 1;
            }
        }
    }
    // the full cross product of the remaining settings on a few lists: rendering x clean-up x (threads, ceiling) x k
    {
        let pick: Vec<Vec<Vec<u8>>> = vec![vec![b"ACA".to_vec(), b"TGT".to_vec()], vec![b"AAAA".to_vec(), b"".to_vec(), b"TTTT".to_vec()], vec![b"ACGTNACGT".to_vec()], vec![b"acgu".to_vec(), b"ACGT".to_vec(), b"N".to_vec()]];
        for l in &pick {
            for k in 1..=3usize {
                for &(threads, mem) in &cfgs {
                    for acgt in [false, true] {
                        for delete in [false, true] {
                            if sh.mine() {
                                c07_run(ctx, l, k, threads, mem, acgt, delete, "cross");
                                n += 1;
                            }
                        }
                    }
                }
            }
        }
    }
    ctx.rep.count("cases.config_small", n);
    // repetitive and large-k inputs
    let mut big: Vec<(Vec<Vec<u8>>, usize)> = Vec::new();
    for k in [15usize, 31] {
        for u in strings(b"ACGT", 1, 2) {
            big.push((vec![fill(&u, 2 * k + 1), fill(&u, k), fill(&u, k - 1), [fill(&u, k), b"N".to_vec(), fill(&u, k + 3)].concat()], k));
        }
    }
    big.push(((0..40).map(|i| fill(b"AC", 5 + i % 7)).collect(), 3));
    big.push(((0..64).map(|_| b"AAAAAAAAAA".to_vec()).collect(), 4));
    // counts tables of exactly 4 KiB, 8 KiB, 64 KiB (every line has 8 bytes), one line less, one more
    if !ctx.monitor() {
        let recs = eight_byte_line_records(16_400);
        for nrec in crate::conc::boundary_counts(0, 8, 16_390) {
            big.push((recs[..nrec].to_vec(), 8));
        }
    }
    // records beyond 100 000 bases (a counter that treats long records in blocks), short ones around them
    if !ctx.monitor() {
        big.push((vec![b"ACGTACGTACGTACGTTT".to_vec(), crate::iters::long_input(100_016, 31), b"TTTTTTTTTTTTTTTTTTTTTTT".to_vec()], 15));
        big.push((vec![crate::iters::long_input(250_017, 32), b"ACGT".to_vec()], 21));
        big.push((vec![fill(b"A", 300_000)], 11));
    }
    if !ctx.monitor() {
        for k in [7usize, 11, 21, 31] {
            big.push((crate::iters::medium_inputs(400), k));
        }
    }
    big.push((crate::vecs::repeating_records(), 4));
    big.push((crate::vecs::repeating_records(), 10));
    // equal records 2^8 and 2^16 apart (one less, one more) with nothing related in between
    if !ctx.monitor() {
        for gap in [254usize, 255, 256, 65_534, 65_535, 65_536] {
            big.push((crate::vecs::bookends(gap), 11));
        }
    }
    big.push(((0..3000usize).map(|i| long_bases(2 + i % 11, i)).collect(), 3));
    for (recs, k) in &big {
        // ceilings are scaled to the input so that the chunk x partition grid stays in the hundreds of files
        let total: usize = recs.iter().map(|r| r.len()).sum();
        let many = recs.len() > 1000 || total > 500;
        // for the larger inputs the ceiling is a fraction of the input (a base is 1e-8 "GB" here), so that a run has a
        // handful of chunks whatever the size of the set
        let per = |parts: usize| (total / parts).max(1) as f64 * 1e-8;
        let cfg_many: [(usize, f64); 4] = [(1, 6.0), (4, per(5)), (16, per(11)), (3, per(3))];
        let cfg_few: [(usize, f64); 4] = [(1, 6.0), (4, 1e-7), (16, 2e-8), (8, 1e-9)];
        for (ci, &(threads, mem)) in (if many { &cfg_many } else { &cfg_few }).iter().enumerate() {
            for (acgt, delete) in [(false, true), (true, false)] {
                // the sets of more than 60 000 records: one worker with one chunk, and four workers with five chunks
                if recs.len() > 60_000 && (ci >= 2 || acgt) {
                    continue;
                }
                if !sh.mine() {
                    continue;
                }
                c07_run(ctx, recs, *k, threads, mem, acgt, delete, "repetitive");
                ctx.rep.count("cases.config_repetitive", 1);
            }
        }
    }
    // the chunk x partition grid of temporary files at its largest: about 420 chunks x 235 partitions = 10^5 files (one
    // case, one worker, in the last shard; the other cases keep the grid in the hundreds)
    if !ctx.monitor() && ctx.shard.idx + 1 == ctx.shard.n {
        let recs: Vec<Vec<u8>> = (0..420usize).map(|i| {
            let mut r = long_bases(60, 1000 + i);
            r.iter_mut().for_each(|b| if *b == b'N' { *b = b'G' });
            r
        }).collect();
        c07_run(ctx, &recs, 11, 1, 4e-7, false, true, "grid-100k");
        ctx.rep.count("cases.grid_of_100k_temp_files", 1);
    }
    // every number of distinct k-mers in a contiguous range (one record of d + k - 1 random bases, k = 21): a table
    // that is rendered or merged in blocks goes wrong at a count that is a multiple of the block, whatever the block is
    if !ctx.monitor() {
        let mut text = crate::iters::long_input(60_000, 4711);
        text.iter_mut().for_each(|b| {
            if !b"ACGT".contains(b) {
                *b = b'A'
            }
        });
        let dmax = ctx.pick(1_500usize, 50_000);
        let mut nd = 0u64;
        for d in 1..=dmax {
            if !sh.mine() {
                continue;
            }
            let recs = vec![text[..d + 20].to_vec()];
            // text rendering with one worker (one partition holds every k-mer), numeric with three on every third count
            c07_run(ctx, &recs, 21, 1, 6.0, true, true, "distinct-sweep");
            nd += 1;
            if d % 3 == 0 {
                c07_run(ctx, &recs, 21, 3, 6.0, false, true, "distinct-sweep");
                nd += 1;
            }
        }
        ctx.rep.count("cases.distinct_count_sweep", nd);
    }
    if ctx.shard.is_first() {
        ctx.rep.sample("records [\"ACA\",\"CAC\"] k=2 threads=4 memory=1e-8 GB (base limit 1, ~dozen partitions), numeric output, merge(false)".to_string());
        ctx.rep.sample("64 x \"AAAAAAAAAA\" k=4 threads=16 memory=2e-8".to_string());
        ctx.rep.notes.push(format!("C07 configurations: every single record over {{A,C,G,T,N}}^(<= {}), every pair over {{A,C,T,N}}^(<=2) and over {{A,T,N}}^(<=3) (thorough: also {{A,C,N}}^(<=3), {{A,C,G,T,N}}^(<=2) and triples over {{A,G,T,N}}^(<=2)) x k 1..={} x 8 (threads, ceiling) settings incl. one worker with base limits 0 and 2; repetitive inputs for k 3, 4, 15, 31", ctx.pick(4, 5), ctx.pick(2, 3)));
    }
}

// ------------------------------------------------------------------------------------------ C08

fn parse_rows(text: &str, delim: &str) -> Result<Vec<Vec<f64>>, String> {
    let mut rows = Vec::new();
    for (i, line) in text.split('\n').enumerate() {
        if line.is_empty() {
            continue;
        }
        let mut row = Vec::new();
        for tok in line.split(delim) {
            row.push(tok.parse::<f64>().map_err(|_| format!("line {}: token {:?} is not a number", i, tok))?);
        }
        rows.push(row);
    }
    Ok(rows)
}

fn check_cov_rows(text: &str, records: &[Vec<u8>], k: usize, table: &BTreeMap<u128, u64>, bs: usize, bc: usize, norm: bool) -> Result<(), (String, String)> {
    check_cov_rows_delim(text, records, k, table, bs, bc, norm, " ")
}

#[allow(clippy::too_many_arguments)]
fn check_cov_rows_delim(text: &str, records: &[Vec<u8>], k: usize, table: &BTreeMap<u128, u64>, bs: usize, bc: usize, norm: bool, delim: &str) -> Result<(), (String, String)> {
    let rows = parse_rows(text, delim).map_err(|e| ("unparsable-output".to_string(), e))?;
    // a row of an empty line cannot exist: bin_count >= 1 means every row has at least one number
    let nlines = text.split('\n').filter(|l| !l.is_empty()).count();
    if nlines != records.len() || rows.len() != records.len() {
        return Err(("row-count".into(), format!("{} rows for {} records", nlines, records.len())));
    }
    for (i, (row, rec)) in rows.iter().zip(records).enumerate() {
        let (h, t) = model::histogram(rec, k, table, bs as u64, bc);
        if row.len() != bc {
            return Err(("row-length".into(), format!("row {i} has {} entries, expected {bc}", row.len())));
        }
        for b in 0..bc {
            let ok = if norm { model::close_to_ratio(row[b], h[b], t) } else { row[b] == h[b] as f64 };
            if !ok {
                return Err(("bin-value".into(), format!("row {i} (record {:?}) bin {b} = {}, expected {}/{}; model histogram {:?}", show(rec), row[b], h[b], if norm { t } else { 1 }, h)));
            }
        }
    }
    Ok(())
}

#[allow(clippy::too_many_arguments)]
fn c08_pipeline(ctx: &mut Ctx, records: &[Vec<u8>], alt: Option<&[Vec<u8>]>, k: usize, bs: usize, bc: usize, norm: bool, threads: usize, mem: f64) {
    c08_pipeline_delim(ctx, records, alt, k, bs, bc, norm, threads, mem, " ")
}

#[allow(clippy::too_many_arguments)]
fn c08_pipeline_delim(ctx: &mut Ctx, records: &[Vec<u8>], alt: Option<&[Vec<u8>]>, k: usize, bs: usize, bc: usize, norm: bool, threads: usize, mem: f64, delim: &str) {
    let dir = format!("{}/c08", ctx.scratch);
    // the directory of the previous case stays as it is: tables and vector files get longer and shorter over one location
    std::fs::create_dir_all(&dir).unwrap();
    let inp = format!("{}/c08_in.fa", ctx.scratch);
    let altp = format!("{}/c08_alt.fa", ctx.scratch);
    write_fasta(&inp, records);
    if let Some(a) = alt {
        write_fasta(&altp, a);
    }
    let enc = |l: &[Vec<u8>]| l.iter().map(|r| hex(r)).collect::<Vec<_>>().join(",");
    let argv = vec!["case".to_string(), "C08".to_string(), enc(records), alt.map(enc).unwrap_or_else(|| "-".into()), k.to_string(), bs.to_string(), bc.to_string(), (norm as u8).to_string(), threads.to_string(), format!("{:e}", mem), hex(delim.as_bytes())];
    ctx.journal.note(|| format!("C08 {:?}", argv));
    ctx.rep.evaluations += 1;
    let r = guard(|| {
        let mut c = CovComputer::new(inp.clone(), dir.clone(), k, bs, bc);
        // both orders of the setter calls are used (by case parity)
        if delim != " " {
            c.set_delim(delim.to_string());
        }
        if (threads + bs + records.len()) % 2 == 0 {
            c.set_threads(threads);
            c.set_norm(norm);
            c.set_max_memory(mem);
            if alt.is_some() {
                c.set_kmer_path(altp.clone());
            }
        } else {
            if alt.is_some() {
                c.set_kmer_path(altp.clone());
            }
            c.set_max_memory(mem);
            c.set_norm(norm);
            c.set_threads(threads);
        }
        c.build_table().unwrap();
        c.compute_coverages();
    });
    let size = records.iter().map(|r| r.len() + 1).sum::<usize>() * 64 + bs + bc;
    let what = format!("coverage of {:?} (counting input {:?}) k={k} bin-size={bs} bin-count={bc} norm={norm} threads={threads} memory={mem}", records.iter().map(|r| show(r)).collect::<Vec<_>>(), alt.map(|a| a.iter().map(|r| show(r)).collect::<Vec<_>>()));
    if let Err(p) = r {
        return viol(ctx, "panic", size, format!("{what}: panicked: {p}"), argv);
    }
    let table = model::counts(alt.unwrap_or(records), k);
    let text = std::fs::read_to_string(format!("{dir}/kmers.vectors")).unwrap_or_default();
    if !text.is_empty() && text.len() % 4096 == 0 {
        ctx.rep.count("outputs_on_a_4k_multiple", 1);
    }
    if let Err((key, msg)) = check_cov_rows_delim(&text, records, k, &table, bs, bc, norm, delim) {
        return viol(ctx, &key, size, format!("{what} delimiter {delim:?}: {msg}"), argv);
    }
    if records.iter().any(|r| r.len() >= k) {
        ctx.rep.nontrivial += 1;
    }
}

/// records holding one canonical 8-mer each, all with five-digit codes: every line of the counts table ("code, tab,
/// count 1, line feed") has 8 bytes, so n records give a table of exactly 8n bytes
pub fn eight_byte_line_records(n: usize) -> Vec<Vec<u8>> {
    model::canon_index(8).into_iter().filter(|c| (10_000..100_000).contains(c)).take(n).map(|c| model::text_of(c, 8)).collect()
}

/// compute_coverages on a harness-written counts table
fn c08_direct(ctx: &mut Ctx, records: &[Vec<u8>], k: usize, table: &BTreeMap<u128, u64>, bs: usize, bc: usize, norm: bool, tag: &str) {
    let dir = format!("{}/c08d", ctx.scratch);
    let _ = std::fs::remove_dir_all(&dir);
    std::fs::create_dir_all(&dir).unwrap();
    let inp = format!("{}/c08d_in.fa", ctx.scratch);
    write_fasta(&inp, records);
    let mut t = String::new();
    for (kc, c) in table {
        t.push_str(&format!("{}\t{}\n", kc, c));
    }
    std::fs::write(format!("{dir}/kmers.counts"), t).unwrap();
    let argv = vec!["case".to_string(), "C08direct".to_string(), tag.to_string(), k.to_string(), bs.to_string(), bc.to_string(), (norm as u8).to_string()];
    ctx.journal.note(|| format!("C08 direct {:?}", argv));
    ctx.rep.evaluations += 1;
    let r = guard(|| {
        let mut c = CovComputer::new(inp.clone(), dir.clone(), k, bs, bc);
        c.set_threads(2);
        c.set_norm(norm);
        c.compute_coverages();
    });
    let what = format!("compute_coverages on table {:?}, records {:?}, k={k} bin-size={bs} bin-count={bc} norm={norm}", table, records.iter().map(|r| show(r)).collect::<Vec<_>>());
    if let Err(p) = r {
        return viol(ctx, "panic", bs + bc, format!("{what}: panicked: {p}"), argv);
    }
    let text = std::fs::read_to_string(format!("{dir}/kmers.vectors")).unwrap_or_default();
    if let Err((key, msg)) = check_cov_rows(&text, records, k, table, bs, bc, norm) {
        return viol(ctx, &key, bs + bc, format!("{what}: {msg}"), argv);
    }
    ctx.rep.nontrivial += 1;
}

fn c08_one(ctx: &mut Ctx, seq: &[u8], k: usize, table: &BTreeMap<u128, u64>, bs: usize, bc: usize) {
    ctx.journal.note(|| format!("C08 one seq={} k={} bs={} bc={}", hex(seq), k, bs, bc));
    let argv = vec!["case".to_string(), "C08one".to_string(), hex(seq), k.to_string(), bs.to_string(), bc.to_string()];
    let hm: HashMap<u64, u32> = table.iter().map(|(k, v)| (*k as u64, *v as u32)).collect();
    for norm in [true, false] {
        ctx.rep.evaluations += 1;
        let r = guard(|| {
            let mut c = CovComputer::new("-".into(), "-".into(), k, bs, bc);
            c.set_norm(norm);
            c.verif_vectorise_one(seq, &hm)
        });
        let (h, t) = model::histogram(seq, k, table, bs as u64, bc);
        match r {
            Err(p) => return viol(ctx, "panic", seq.len(), format!("coverage vectorise_one({:?}, k={k}, bs={bs}, bc={bc}) panicked: {p}", show(seq)), argv),
            Ok(v) => {
                let ok = v.len() == bc && (0..bc).all(|b| if norm { model::close_to_ratio(v[b], h[b], t) } else { v[b] == h[b] as f64 });
                if !ok {
                    return viol(ctx, "bin-value", seq.len(), format!("coverage vectorise_one({:?}, k={k}, bin-size={bs}, bin-count={bc}, norm={norm}) = {:?}, model histogram {:?} of {} windows", show(seq), v, h, t), argv);
                }
            }
        }
    }
    if seq.len() >= k {
        ctx.rep.nontrivial += 1;
    }
}

fn synthetic_table(k: usize, bs: usize, bc: usize) -> BTreeMap<u128, u64> {
    // multiplicities chosen around the bin edges and far beyond the last bin; some k-mers absent
    let mults: [u64; 8] = [1, bs as u64, (bs * bc) as u64 - 1, (bs * bc) as u64, (bs * bc) as u64 + 1, 1_000_000, u32::MAX as u64, 2];
    let mut t = BTreeMap::new();
    for (i, c) in model::canon_index(k).into_iter().enumerate() {
        if i % 3 == 2 {
            continue; // absent
        }
        let m = mults[i % mults.len()];
        if m > 0 {
            t.insert(c, m);
        }
    }
    t
}

/// bin arithmetic: every bin size up to B x every multiplicity up to (bin count + 1) x bin size (and far beyond)
fn c08_bin_lattice(ctx: &mut Ctx) {
    let bmax = ctx.pick(300usize, 3000);
    let bc = 7usize;
    let k = 3usize;
    let seq = b"AAA";
    let code: u64 = 0;
    let mut sh = ctx.shard;
    let mut n = 0u64;
    // beyond the contiguous range: bin sizes around the widths a bin size could be narrowed to (2^16, 2^24, 2^31, 2^32)
    let big: [usize; 14] = [65_535, 65_536, 65_537, 1 << 24, (1 << 24) + 1, (1 << 31) - 1, 1 << 31, (1 << 32) - 1, 1 << 32, (1 << 32) + 1, (1 << 32) + 5, (1 << 33) + 2, 1 << 40, (1 << 53) + 1];
    for bs in (1..=bmax).chain(big.iter().cloned()) {
        if !sh.mine() {
            continue;
        }
        let mut raw = CovComputer::new("-".into(), "-".into(), k, bs, bc);
        raw.set_norm(false);
        let mut mults: Vec<u64> = if bs <= bmax {
            (0..=((bc as u64 + 1) * bs as u64 + 1)).collect()
        } else {
            let b = bs as u64;
            let mut m: Vec<u64> = vec![0, 1, 4, 5, 6, 16, 255, 256, 65_535, 65_536];
            m.extend([b - 1, b, b + 1, 2 * b - 1, 2 * b, 3 * b, 6 * b - 1, 6 * b, 7 * b].iter().filter(|&&x| x <= u32::MAX as u64));
            m
        };
        mults.extend([1_000_000u64, u32::MAX as u64 - 1, u32::MAX as u64]);
        for mult in mults {
            let mut hm: HashMap<u64, u32> = HashMap::new();
            if mult > 0 {
                hm.insert(code, mult as u32);
            }
            ctx.rep.evaluations += 1;
            n += 1;
            ctx.journal.note(|| format!("C08 bin lattice: coverage vectorise_one(\"AAA\", k=3), bin-size {bs}, {bc} bins, multiplicity {mult}"));
            let exp_bin = std::cmp::min((mult / bs as u64) as usize, bc - 1);
            let got = guard(|| raw.verif_vectorise_one(seq, &hm));
            let ok = match &got {
                Ok(v) => v.len() == bc && (0..bc).all(|b| v[b] == if b == exp_bin { 1.0 } else { 0.0 }),
                Err(_) => false,
            };
            if !ok {
                ctx.rep.violation(Violation {
                    key: "bin-arithmetic".into(),
                    size: bs * 10 + (mult as usize).min(9),
                    desc: format!("coverage vectorise_one(\"AAA\", k=3) with bin-size {bs}, {bc} bins and multiplicity {mult}: got {:?}, the window belongs in bin min(floor({mult}/{bs}), {}) = {exp_bin}", got, bc - 1),
                    argv: vec!["case".into(), "C08bin".into(), bs.to_string(), mult.to_string()],
                });
                break;
            }
            ctx.rep.nontrivial += 1;
        }
    }
    ctx.rep.count("cases.bin_lattice", n);
    if ctx.shard.is_first() {
        ctx.rep.sample("bin lattice: bin-size 49, 7 bins, multiplicity 98 -> bin 2 (every bin size up to the bound x every multiplicity up to 8 x bin size)".to_string());
    }
}

/// One CovComputer object, several (build_table, compute_coverages) rounds with settings changed in between
/// through the public setters: every round must give what a fresh computer with those settings gives.
fn c08_reuse_sequence(ctx: &mut Ctx, steps: &[&str]) {
    let dir = format!("{}/c08r", ctx.scratch);
    let _ = std::fs::remove_dir_all(&dir);
    std::fs::create_dir_all(&dir).unwrap();
    let inp = format!("{}/c08r_in.fa", ctx.scratch);
    let alt1p = format!("{}/c08r_alt1.fa", ctx.scratch);
    let alt2p = format!("{}/c08r_alt2.fa", ctx.scratch);
    let records: Vec<Vec<u8>> = vec![b"ACACAC".to_vec(), b"TTGTTGAA".to_vec(), b"".to_vec(), b"GTGTNAC".to_vec()];
    let alt1: Vec<Vec<u8>> = vec![b"ACACACACAC".to_vec(), b"CA".to_vec()];
    let alt2: Vec<Vec<u8>> = vec![b"TTTTTTGG".to_vec()];
    write_fasta(&inp, &records);
    write_fasta(&alt1p, &alt1);
    write_fasta(&alt2p, &alt2);
    let (k, bs, bc) = (2usize, 2usize, 3usize);
    let argv = {
        let mut a = vec!["case".to_string(), "C08reuse".to_string()];
        a.extend(steps.iter().map(|s| s.to_string()));
        a
    };
    ctx.journal.note(|| format!("C08 reuse {:?}", argv));
    ctx.rep.evaluations += 1;
    let mut c = CovComputer::new(inp.clone(), dir.clone(), k, bs, bc);
    c.set_threads(2);
    let mut norm = true;
    let mut delim = " ".to_string();
    let mut counting: Vec<Vec<u8>> = records.clone();
    let what = format!("one CovComputer (k={k}, bin-size {bs}, {bc} bins) driven through {:?}, each step followed by build_table + compute_coverages", steps);
    for (i, step) in std::iter::once(&"run").chain(steps.iter()).enumerate() {
        match *step {
            "alt1" => {
                c.set_kmer_path(alt1p.clone());
                counting = alt1.clone();
            }
            "alt2" => {
                c.set_kmer_path(alt2p.clone());
                counting = alt2.clone();
            }
            "raw" => {
                c.set_norm(false);
                norm = false;
            }
            "norm" => {
                c.set_norm(true);
                norm = true;
            }
            "csv" => {
                c.set_delim(",".into());
                delim = ",".into();
            }
            "threads3" => c.set_threads(3),
            "mem-low" => c.set_max_memory(0.5),
            _ => {}
        }
        let r = guard(|| {
            c.build_table().unwrap();
            c.compute_coverages();
        });
        if let Err(p) = r {
            return viol(ctx, "panic", steps.len() * 10 + i, format!("{what}: round {i} panicked: {p}"), argv);
        }
        let table = model::counts(&counting, k);
        let text = std::fs::read_to_string(format!("{dir}/kmers.vectors")).unwrap_or_default().replace(&delim, " ");
        if let Err((key, msg)) = check_cov_rows(&text, &records, k, &table, bs, bc, norm) {
            return viol(ctx, &key, steps.len() * 10 + i, format!("{what}: round {i} (after {:?}): {msg}", step), argv);
        }
    }
    ctx.rep.nontrivial += 1;
}

fn c08_reuse(ctx: &mut Ctx) {
    let alphabet = ["alt1", "alt2", "raw", "norm", "csv", "threads3", "mem-low", "run"];
    let mut sh = ctx.shard;
    let mut n = 0u64;
    for a in alphabet {
        if sh.mine() {
            c08_reuse_sequence(ctx, &[a]);
            n += 1;
        }
        for b in alphabet {
            if sh.mine() {
                c08_reuse_sequence(ctx, &[a, b]);
                n += 1;
            }
            if ctx.thorough() {
                for c in alphabet {
                    if sh.mine() {
                        c08_reuse_sequence(ctx, &[a, b, c]);
                        n += 1;
                    }
                }
            }
        }
    }
    ctx.rep.count("cases.object_reuse_sequences", n);
    if ctx.shard.is_first() {
        ctx.rep.sample("object reuse: one CovComputer: run; set_kmer_path(alt1), run; set_kmer_path(alt2), run - each round against the model for the counting input in force".to_string());
    }
}

pub fn c08(ctx: &mut Ctx) {

    c08_bin_lattice(ctx);
    c08_reuse(ctx);
    // per-record routine on synthetic tables
    let mut sh = ctx.shard;
    let mut todo: Vec<Vec<u8>> = Vec::new();
    for_each_string(S5, 0, ctx.pick(6, 8), |s| {
        if sh.mine() {
            todo.push(s.to_vec());
        }
    });
    let shapes = [(1usize, 1usize), (1, 3), (2, 2), (3, 2), (2, 5), (16, 16), (1, 1000), (7, 65_536), (65_536, 3)];
    let mut n = 0u64;
    for k in 1..=3usize {
        for &(bs, bc) in &shapes {
            let table = synthetic_table(k, bs, bc);
            for s in &todo {
                c08_one(ctx, s, k, &table, bs, bc);
                n += 1;
            }
        }
    }
    // both cases and U (the table is keyed by canonical codes, so these records hit the same entries)
    {
        let mut todo10: Vec<Vec<u8>> = Vec::new();
        for_each_string(crate::enumr::S10, 1, ctx.pick(4, 5), |s| {
            if sh.mine() && s.iter().any(|b| !b"ACGT".contains(b)) {
                todo10.push(s.to_vec());
            }
        });
        for k in 1..=3usize {
            for &(bs, bc) in &[(1usize, 3usize), (2, 5)] {
                let table = synthetic_table(k, bs, bc);
                for s in &todo10 {
                    c08_one(ctx, s, k, &table, bs, bc);
                    n += 1;
                }
            }
        }
    }
    // long records without any window (all ambiguous, or clean stretches shorter than k only) and at round lengths
    if !ctx.monitor() {
        let mut specials: Vec<Vec<u8>> = vec![vec![b'N'; 99_999], vec![b'N'; 100_000], vec![b'N'; 100_001], vec![b'N'; 1_000_001]];
        let mut mostly = vec![b'N'; 120_000];
        mostly[60_000] = b'A';
        mostly[60_001] = b'C';
        specials.push(mostly);
        for len in [99_999usize, 100_000, 100_001, 1_000_000] {
            specials.push(crate::iters::long_input(len, len as u64));
        }
        // more than 2^24 bases in one record
        specials.push(crate::iters::long_input((1 << 24) + 4321, 99));
        for s in &specials {
            if sh.mine() {
                let table = synthetic_table(3, 2, 5);
                c08_one(ctx, s, 3, &table, 2, 5);
                n += 1;
            }
        }
    }
    // long records
    for (len, seed) in [(4097usize, 1u64), (20_000, 3), (70_000, 4)] {
        let s = crate::iters::long_input(len, seed);
        for k in [1usize, 3, 7] {
            if sh.mine() {
                let table = synthetic_table(k.min(3), 2, 5);
                c08_one(ctx, &s, k.min(3), &table, 2, 5);
                n += 1;
            }
        }
    }
    ctx.rep.count("cases.per_record", n);
    drop(todo);
    // pipeline on small record lists
    let strs = strings(b"ACTN", 0, 3);
    let pair_strs = strings(b"ATN", 0, ctx.pick(2, 3));
    let mut lists: Vec<Vec<Vec<u8>>> = vec![vec![]];
    for a in &strs {
        lists.push(vec![a.clone()]);
    }
    for a in &pair_strs {
        for b in &pair_strs {
            lists.push(vec![a.clone(), b.clone()]);
        }
    }
    if ctx.thorough() {
        let s2 = strings(b"AGN", 0, 2);
        for a in &s2 {
            for b in &s2 {
                for c in &s2 {
                    lists.push(vec![a.clone(), b.clone(), c.clone()]);
                }
            }
        }
    }
    let alt: Vec<Vec<u8>> = vec![b"ACAC".to_vec(), b"CCA".to_vec(), b"AAAAAA".to_vec()];
    // (threads, ceiling): one / two / four workers crossed with the three regimes of the ceiling (below 1: a flush
    // after every record; whole GiB: one flush at the end; a few bases: the counting step runs in several chunks)
    let cfgs: [(usize, f64); 9] = [(1, 0.5), (1, 6.0), (1, 4e-9), (2, 0.5), (2, 1.0), (2, 1e-8), (4, 0.99), (4, 6.0), (4, 2e-8)];
    let mut sh = ctx.shard;
    let mut n = 0u64;
    for l in &lists {
        for k in 1..=2usize {
            for (si, &(bs, bc)) in [(1usize, 1usize), (1, 3), (2, 2), (3, 2)].iter().enumerate() {
                for norm in [true, false] {
                    for (ci, &(threads, mem)) in cfgs.iter().enumerate() {
                        if !sh.mine() {
                            continue;
                        }
                        let use_alt = (si + ci + k) % 3 == 0;
                        c08_pipeline(ctx, l, if use_alt { Some(&alt) } else { None }, k, bs, bc, norm, threads, mem);
                        n += 1;
                        if l.len() <= 1 {
                            // the other setting of "counting input" too: on the shortest lists the cross product is full
                            c08_pipeline(ctx, l, if use_alt { None } else { Some(&alt) }, k, bs, bc, norm, threads, mem);
                            n += 1;
                        }
                    }
                }
            }
        }
    }
    // every combination of the remaining settings on three short lists: delimiter x raw/normalised x counting input x
    // (threads, ceiling) x bin shape
    {
        let pick: Vec<Vec<Vec<u8>>> = vec![vec![b"ACA".to_vec(), b"CAN".to_vec()], vec![b"AAAA".to_vec()], vec![b"".to_vec(), b"ACGTAC".to_vec(), b"acgu".to_vec()]];
        for l in &pick {
            for delim in [",", "\t", "::", "\u{b7}"] {
                for norm in [true, false] {
                    for use_alt in [false, true] {
                        for &(threads, mem) in &cfgs {
                            for &(bs, bc) in &[(1usize, 3usize), (2, 2)] {
                                if sh.mine() {
                                    c08_pipeline_delim(ctx, l, if use_alt { Some(&alt) } else { None }, 2, bs, bc, norm, threads, mem, delim);
                                    n += 1;
                                }
                            }
                        }
                    }
                }
            }
        }
    }
    ctx.rep.count("cases.pipeline_small", n);
    // high multiplicity, many records, batching per record (memory < 1) and single batch
    let many: Vec<Vec<u8>> = (0..200usize).map(|i| fill(&[b"ACGT"[i % 4], b"ACGT"[(i / 4) % 4], b'A'], 3 + i % 9)).collect();
    let sets: Vec<(&str, Vec<Vec<u8>>)> = vec![
        ("polyA", vec![fill(b"A", 50), b"AAC".to_vec(), b"".to_vec(), b"NNNN".to_vec()]),
        ("AC40", vec![fill(b"AC", 80), b"CACA".to_vec(), b"GT".to_vec()]),
        ("two-hundred", many),
        ("long-first", {
            let mut lf = vec![fill(b"ACGGTCAN", 150_000)];
            lf.extend(strings(b"ACGT", 1, 2).into_iter().take(6));
            lf
        }),
        ("three-thousand", (0..3000usize).map(|i| long_bases(1 + i % 13, i)).collect()),
        ("empty-last", vec![b"ACG".to_vec(), b"".to_vec()]),
        ("only-empty", vec![b"".to_vec()]),
        ("all-N", vec![b"NNN".to_vec(), b"N".to_vec()]),
        ("repeating", crate::vecs::repeating_records()),
        ("reads", crate::iters::medium_inputs(200)),
        ("odd-then-same-256", crate::vecs::odd_then_same(256)),
    ];
    let mut n = 0u64;
    for (_tag, recs) in &sets {
        for k in [1usize, 2, 3, 7] {
            for &(bs, bc) in &[(1usize, 1usize), (1, 3), (2, 3), (5, 5), (16, 16), (10, 2)] {
                for norm in [true, false] {
                    for &(threads, mem) in &[(1usize, 0.5f64), (3, 0.99), (8, 6.0), (16, 128.0), (2, 2e-7), (1, 1e-7)] {
                        // ceilings of a few bases only on the small sets: the chunk x partition grid of temp files grows
                        // with records x bases and would exhaust the scratch file system on the large ones
                        if mem < 0.1 && recs.len() > 10 {
                            continue;
                        }
                        if !sh.mine() {
                            continue;
                        }
                        c08_pipeline(ctx, recs, None, k, bs, bc, norm, threads, mem);
                        n += 1;
                    }
                }
            }
        }
    }
    // large k: different k-mers that agree in all but their first (or last) few bases - a single-base stretch a little
    // shorter than k inside ordinary sequence - and occur different numbers of times (extra records holding one window)
    for k in [22usize, 25, 31] {
        let mut read = long_bases(60, 7 + k);
        read.iter_mut().for_each(|b| if *b == b'N' { *b = b'C' });
        let mut main = read[..55].to_vec();
        main.extend(std::iter::repeat(b'A').take(k - 5));
        main.extend_from_slice(&read[..60]);
        let mut recs = vec![main.clone()];
        for (j, s) in [50usize, 52, 54, 55 + k - 9].iter().enumerate() {
            for _ in 0..(2 * j + 3) {
                recs.push(main[*s..*s + k].to_vec());
            }
        }
        recs.push(long_bases(70, 3));
        for &(bs, bc) in &[(5usize, 5usize), (2, 6)] {
            for &(threads, mem) in &[(1usize, 6.0f64), (4, 6.0)] {
                if sh.mine() {
                    c08_pipeline(ctx, &recs, None, k, bs, bc, false, threads, mem);
                    n += 1;
                }
            }
        }
    }
    ctx.rep.count("cases.pipeline_multiplicity", n);
    // vector files whose size is exactly a multiple of 4 KiB / 8 KiB / 64 KiB (normalised rows have a fixed width)
    if !ctx.monitor() {
        let pool: Vec<Vec<u8>> = (0..10_002usize).map(|i| long_bases(2 + i % 7, i)).collect();
        let mut nb = 0u64;
        // record counts at round decimal numbers
        for nrec in [99usize, 100, 101, 999, 1000, 1001, 9_999, 10_000, 10_001] {
            for (threads, mem, norm) in [(1usize, 6.0f64, true), (4, 0.5, false)] {
                if sh.mine() {
                    c08_pipeline(ctx, &pool[..nrec], None, 2, 2, 3, norm, threads, mem);
                    nb += 1;
                }
            }
        }
        for bc in [3usize, 16, 64] {
            let row = {
                // measured on one record, so that the row format is not assumed here
                let mut c = CovComputer::new("-".into(), "-".into(), 2, 2, bc);
                c.set_norm(true);
                let v = c.verif_vectorise_one(b"ACGT", &HashMap::new());
                v.iter().map(|x| format!("{:.6}", x)).collect::<Vec<_>>().join(" ").len() + 1
            };
            for nrec in crate::conc::boundary_counts(0, row, 8192) {
                for (threads, mem) in [(1usize, 6.0f64), (4, 0.5)] {
                    if sh.mine() {
                        c08_pipeline(ctx, &pool[..nrec], None, 2, 2, bc, true, threads, mem);
                        nb += 1;
                    }
                }
            }
        }
        // a record in which one window in two million falls into another bin (printed fractions next to 1 and to 0)
        for threads in [1usize, 4] {
            if sh.mine() {
                c08_pipeline(ctx, &crate::vecs::near_one_records(), None, 3, 2, 5, true, threads, 6.0);
                nb += 1;
            }
        }
        // counts tables of exactly 4 KiB, 8 KiB, 64 KiB (and 8 bytes less / more): the table is read back for the histograms
        let recs = eight_byte_line_records(16_400);
        for nrec in crate::conc::boundary_counts(0, 8, 16_390) {
            for (threads, mem, norm) in [(1usize, 6.0f64, false), (4, 0.5, true)] {
                if sh.mine() {
                    c08_pipeline(ctx, &recs[..nrec], None, 8, 1, 3, norm, threads, mem);
                    nb += 1;
                }
            }
        }
        ctx.rep.count("cases.size_boundaries", nb);
    }
    // every record count 0..=40 (and a few larger) x threads 1..=8, 16: how a batch is split over the pool must not matter
    let pool: Vec<Vec<u8>> = (0..130usize).map(|i| fill(&[b"ACGT"[i % 4], b"ACGT"[(i / 4) % 4], b"AT"[(i / 16) % 2]], 2 + i % 7)).collect();
    let mut n = 0u64;
    for nrec in (0..=40usize).chain([63, 64, 65, 127, 129]) {
        for threads in (1..=8usize).chain([16]) {
            for (norm, mem) in [(true, 6.0f64), (false, 0.5)] {
                if !sh.mine() {
                    continue;
                }
                c08_pipeline(ctx, &pool[..nrec], None, 2, 2, 3, norm, threads, mem);
                n += 1;
            }
        }
    }
    ctx.rep.count("cases.record_count_lattice", n);
    // direct tables
    let recs: Vec<Vec<u8>> = vec![b"ACGTACGTAA".to_vec(), b"".to_vec(), b"TTTTNGGG".to_vec(), b"AC".to_vec()];
    let mut n = 0u64;
    for k in 1..=3usize {
        for &(bs, bc) in &shapes {
            for norm in [true, false] {
                if !sh.mine() {
                    continue;
                }
                c08_direct(ctx, &recs, k, &synthetic_table(k, bs, bc), bs, bc, norm, "synthetic");
                n += 1;
            }
        }
    }
    ctx.rep.count("cases.direct_tables", n);
    if ctx.shard.is_first() {
        ctx.rep.sample("pipeline: records [\"ACA\",\"CN\"] k=2 bin-size=2 bin-count=2 raw, threads=2, memory=1.0".to_string());
        ctx.rep.sample("direct: table with multiplicities 1, bs*bc-1, bs*bc, bs*bc+1, 10^6, u32::MAX and absent k-mers; bin-size 2 x 5 bins".to_string());
        ctx.rep.sample("pipeline: [A x 50, \"AAC\", \"\", \"NNNN\"] k=3 bin-size=5 bin-count=5, flush per record (memory 0.5)".to_string());
        ctx.rep.notes.push("C08: per-record routine on S5 strings x k 1..=3 x 6 bin shapes with synthetic tables; full pipeline on every single record over {A,C,T,N}^(<=3) and every pair over {A,T,N}^(<=2, thorough 3) (thorough: also triples over {A,G,N}^(<=2)) x k 1..=2 x 4 bin shapes x norm/raw x 5 (threads, memory) settings (incl. ceilings of a few bases: the counting step then runs in several chunks) with same / different counting input; high-multiplicity and 200-record sets; compute_coverages on harness-written tables; operation sequences on one CovComputer object (every sequence of <= 2, thorough 3, setter calls from an alphabet of 8, each followed by build_table + compute_coverages). 'flush every few records' is unreachable (threshold is whole GiB of bases): only per-record (memory<1) and single-batch flushing exist".to_string());
    }
}

pub fn replay(ctx: &mut Ctx, args: &[String]) {
    let dec = |s: &str| -> Vec<Vec<u8>> {
        if s.is_empty() {
            vec![]
        } else {
            s.split(',').map(unhex).collect()
        }
    };
    match args[0].as_str() {
        "C06hist" => {
            let recs = list_from_code(&args[1]);
            let ser = Ser::parse(&args[2]);
            let (text, bounds) = serialise(&recs, ser);
            let bytes = container_bytes(&text, &bounds, &args[3]);
            c06_read(ctx, &recs, ser, &args[3], &bytes, 0, vec![]);
            let rev: Vec<Rec> = recs.iter().rev().cloned().collect();
            let (t2, b2) = serialise(&rev, ser);
            let bytes2 = container_bytes(&t2, &b2, &args[3]);
            c06_read(ctx, &rev, ser, &args[3], &bytes2, 0, vec![]);
        }
        "C06" => {
            let recs = list_from_code(&args[1]);
            let ser = Ser::parse(&args[2]);
            let (text, bounds) = serialise(&recs, ser);
            let bytes = container_bytes(&text, &bounds, &args[3]);
            c06_read(ctx, &recs, ser, &args[3], &bytes, 0, vec![]);
        }
        "C06len" => {
            let len: usize = args[1].parse().unwrap();
            let ser = Ser::parse(&args[2]);
            let recs = vec![Rec { header: format!("first len={}", len), bases: long_bases(len, len) }, Rec { header: "second".into(), bases: b"ACGTN".to_vec() }];
            let (text, bounds) = serialise(&recs, ser);
            let bytes = container_bytes(&text, &bounds, &args[3]);
            c06_read(ctx, &recs, ser, &args[3], &bytes, 0, vec![]);
        }
        "C06huge" => c06_huge_total(ctx, args[1] == "1", args[2].parse().unwrap()),
        "C06many" => {
            let nrec: usize = args[1].parse().unwrap();
            let ser = Ser::parse(&args[2]);
            let recs: Vec<Rec> = (0..nrec).map(|i| Rec { header: format!("r{} d", i), bases: long_bases(1 + i % 9, i) }).collect();
            let (text, bounds) = serialise(&recs, ser);
            let bytes = container_bytes(&text, &bounds, &args[3]);
            c06_read(ctx, &recs, ser, &args[3], &bytes, 0, vec![]);
        }
        "C06header" => {
            let idlen: usize = args[1].parse().unwrap();
            let desclen: usize = args[2].parse().unwrap();
            let ser = Ser::parse(&args[3]);
            let id: String = (0..idlen).map(|i| (b'a' + (i % 26) as u8) as char).collect();
            let header = if desclen > 0 { format!("{} {}", id, "d".repeat(desclen)) } else { id.clone() };
            let recs = vec![Rec { header, bases: b"ACGTN".to_vec() }, Rec { header: "second x".into(), bases: b"GG".to_vec() }];
            let (text, bounds) = serialise(&recs, ser);
            let bytes = container_bytes(&text, &bounds, &args[4]);
            c06_read(ctx, &recs, ser, &args[4], &bytes, 0, vec![]);
        }
        "C06idb" => {
            let (recs, bytes) = boundary_id_case(args[1].parse().unwrap(), args[2].parse().unwrap(), args[3].parse().unwrap(), &args[4]);
            c06_read(ctx, &recs, Ser::FastaLine, &args[4], &bytes, 0, vec![]);
        }
        "C06size" => {
            let n: usize = args[1].parse().unwrap();
            let fastq = args[2] == "1";
            let level: u32 = args[3].parse().unwrap();
            let three = args[4] == "1";
            let ser = if fastq { Ser::Fastq } else { Ser::FastaLine };
            let all = long_bases(n + 8, 3);
            let first = Rec { header: "first member".into(), bases: all[..n].to_vec() };
            let tail = vec![Rec { header: "b second".into(), bases: b"ACGTNACG".to_vec() }, Rec { header: "c".into(), bases: b"TT".to_vec() }];
            let (t1, _) = serialise(&[first.clone()], ser);
            let (t2, _) = serialise(&tail[..1], ser);
            let (t3, _) = serialise(&tail[1..], ser);
            let bytes = if three { gz_members(&[&t1, &t2, &t3], level) } else {
                let mut t23 = t2.clone();
                t23.extend_from_slice(&t3);
                gz_members(&[&t1, &t23], level)
            };
            let mut recs = vec![first];
            recs.extend(tail);
            c06_read(ctx, &recs, ser, "gz-member-size", &bytes, 0, vec![]);
        }
        "C06long" => {
            let len: usize = args[1].parse().unwrap();
            let nrec: usize = args[2].parse().unwrap();
            let ser = Ser::parse(&args[3]);
            let recs: Vec<Rec> = (0..nrec).map(|i| Rec { header: format!("long{} len={}", i, len + i), bases: long_bases(len + i, i) }).collect();
            let (text, bounds) = serialise(&recs, ser);
            let bytes = container_bytes(&text, &bounds, &args[4]);
            c06_read(ctx, &recs, ser, &args[4], &bytes, 0, vec![]);
        }
        "C07" => {
            let mem: f64 = args[4].parse().unwrap();
            c07_run(ctx, &dec(&args[1]), args[2].parse().unwrap(), args[3].parse().unwrap(), mem, args[5] == "1", args[6] == "1", "replay");
        }
        "C08" => {
            let alt = if args[2] == "-" { None } else { Some(dec(&args[2])) };
            let delim = args.get(9).map(|d| String::from_utf8(unhex(d)).unwrap()).unwrap_or_else(|| " ".to_string());
            c08_pipeline_delim(ctx, &dec(&args[1]), alt.as_deref(), args[3].parse().unwrap(), args[4].parse().unwrap(), args[5].parse().unwrap(), args[6] == "1", args[7].parse().unwrap(), args[8].parse().unwrap(), &delim);
        }
        "C08one" => {
            let k: usize = args[2].parse().unwrap();
            let bs: usize = args[3].parse().unwrap();
            let bc: usize = args[4].parse().unwrap();
            c08_one(ctx, &unhex(&args[1]), k, &synthetic_table(k, bs, bc), bs, bc);
        }
        "C08reuse" => {
            let steps: Vec<&str> = args[1..].iter().map(|s| s.as_str()).collect();
            c08_reuse_sequence(ctx, &steps);
        }
        "C08bin" => {
            let bs: usize = args[1].parse().unwrap();
            let mult: u64 = args[2].parse().unwrap();
            let mut raw = CovComputer::new("-".into(), "-".into(), 3, bs, 7);
            raw.set_norm(false);
            let mut hm: HashMap<u64, u32> = HashMap::new();
            if mult > 0 {
                hm.insert(0, mult as u32);
            }
            ctx.rep.evaluations += 1;
            let exp_bin = std::cmp::min((mult / bs as u64) as usize, 6);
            let got = guard(|| raw.verif_vectorise_one(b"AAA", &hm));
            let ok = matches!(&got, Ok(v) if v.len() == 7 && (0..7).all(|b| v[b] == if b == exp_bin { 1.0 } else { 0.0 }));
            if !ok {
                viol(ctx, "bin-arithmetic", bs, format!("bin-size {bs} multiplicity {mult}: got {:?}, expected bin {exp_bin}", got), vec![]);
            }
        }
        "C08direct" => {
            let k: usize = args[2].parse().unwrap();
            let bs: usize = args[3].parse().unwrap();
            let bc: usize = args[4].parse().unwrap();
            let recs: Vec<Vec<u8>> = vec![b"ACGTACGTAA".to_vec(), b"".to_vec(), b"TTTTNGGG".to_vec(), b"AC".to_vec()];
            c08_direct(ctx, &recs, k, &synthetic_table(k, bs, bc), bs, bc, args[5] == "1", "synthetic");
        }
        _ => panic!("unknown case kind {}", args[0]),
    }
}
