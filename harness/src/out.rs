//! Result reporting: a hand-written JSON emitter (no serde in the harness) and the per-shard report.
#![allow(dead_code)]
use std::collections::BTreeMap;
use std::fmt::Write as _;
use std::io::Write as _;

pub fn jstr(s: &str) -> String {
    let mut o = String::with_capacity(s.len() + 2);
    o.push('"');
    for c in s.chars() {
        match c {
            '"' => o.push_str("\\\""),
            '\\' => o.push_str("\\\\"),
            '\n' => o.push_str("\\n"),
            '\r' => o.push_str("\\r"),
            '\t' => o.push_str("\\t"),
            c if (c as u32) < 0x20 => {
                let _ = write!(o, "\\u{:04x}", c as u32);
            }
            c => o.push(c),
        }
    }
    o.push('"');
    o
}

/// printable rendering of a byte string: ASCII graphic bytes as they are, the rest as \xNN
pub fn show(seq: &[u8]) -> String {
    let mut o = String::new();
    for &b in seq {
        if b.is_ascii_graphic() && b != b'\\' {
            o.push(b as char);
        } else {
            let _ = write!(o, "\\x{:02x}", b);
        }
    }
    o
}

pub fn hex(seq: &[u8]) -> String {
    let mut o = String::with_capacity(seq.len() * 2);
    for &b in seq {
        let _ = write!(o, "{:02x}", b);
    }
    o
}

pub fn unhex(s: &str) -> Vec<u8> {
    (0..s.len() / 2)
        .map(|i| u8::from_str_radix(&s[2 * i..2 * i + 2], 16).expect("hex"))
        .collect()
}

#[derive(Clone)]
pub struct Violation {
    /// classification (used to match known findings)
    pub key: String,
    /// size measure: smaller = simpler counterexample
    pub size: usize,
    /// human-readable description of the case, expected and actual
    pub desc: String,
    /// arguments that make `ktmc` re-execute exactly this case
    pub argv: Vec<String>,
}

#[derive(Default)]
pub struct Report {
    pub evaluations: u64,
    pub nontrivial: u64,
    /// named counters; names ending in `_max` are merged by maximum, all others by sum
    pub counters: BTreeMap<String, u64>,
    pub samples: Vec<String>,
    pub violations: Vec<Violation>,
    pub violation_count: u64,
    pub notes: Vec<String>,
    /// distinct observed outcomes (non-vacuity), merged as a set union
    pub outcomes: std::collections::BTreeSet<String>,
}

const MAX_KEEP: usize = 12;

impl Report {
    pub fn new() -> Self {
        Self::default()
    }

    pub fn count(&mut self, name: &str, by: u64) {
        *self.counters.entry(name.to_string()).or_insert(0) += by;
    }

    pub fn set_max(&mut self, name: &str, v: u64) {
        let e = self.counters.entry(name.to_string()).or_insert(0);
        if v > *e {
            *e = v;
        }
    }

    pub fn sample(&mut self, s: String) {
        if self.samples.len() < 6 {
            self.samples.push(s);
        }
    }

    pub fn violation(&mut self, v: Violation) {
        self.violation_count += 1;
        *self
            .counters
            .entry(format!("violations[{}]", v.key))
            .or_insert(0) += 1;
        // keep the simplest few per run
        self.violations.push(v);
        if self.violations.len() > 4 * MAX_KEEP {
            self.violations.sort_by_key(|v| v.size);
            self.violations.truncate(MAX_KEEP);
        }
    }

    pub fn to_json(&mut self) -> String {
        self.violations.sort_by_key(|v| v.size);
        self.violations.truncate(MAX_KEEP);
        let mut o = String::new();
        o.push_str("{\n");
        let _ = writeln!(o, " \"evaluations\": {},", self.evaluations);
        let _ = writeln!(o, " \"nontrivial\": {},", self.nontrivial);
        let _ = writeln!(o, " \"violation_count\": {},", self.violation_count);
        o.push_str(" \"counters\": {");
        let mut first = true;
        for (k, v) in &self.counters {
            if !first {
                o.push_str(", ");
            }
            first = false;
            let _ = write!(o, "{}: {}", jstr(k), v);
        }
        o.push_str("},\n \"samples\": [");
        o.push_str(
            &self
                .samples
                .iter()
                .map(|s| jstr(s))
                .collect::<Vec<_>>()
                .join(", "),
        );
        o.push_str("],\n \"notes\": [");
        o.push_str(
            &self
                .notes
                .iter()
                .map(|s| jstr(s))
                .collect::<Vec<_>>()
                .join(", "),
        );
        o.push_str("],\n \"outcomes\": [");
        o.push_str(
            &self
                .outcomes
                .iter()
                .take(2000)
                .map(|s| jstr(s))
                .collect::<Vec<_>>()
                .join(", "),
        );
        o.push_str("],\n \"violations\": [");
        let mut first = true;
        for v in &self.violations {
            if !first {
                o.push_str(",");
            }
            first = false;
            let _ = write!(
                o,
                "\n  {{\"key\": {}, \"size\": {}, \"desc\": {}, \"argv\": [{}]}}",
                jstr(&v.key),
                v.size,
                jstr(&v.desc),
                v.argv.iter().map(|a| jstr(a)).collect::<Vec<_>>().join(", ")
            );
        }
        o.push_str("]\n}\n");
        o
    }
}

/// Journal: when KTMC_JOURNAL names a file, the id of the case about to be executed is written there
/// (and flushed) before every subject call, so that a crash (abort) of the shard can be attributed.
pub struct Journal {
    file: Option<std::fs::File>,
}

impl Journal {
    pub fn from_env() -> Self {
        let file = std::env::var("KTMC_JOURNAL")
            .ok()
            .map(|p| std::fs::File::create(p).expect("journal file"));
        Journal { file }
    }

    #[inline]
    pub fn note<F: FnOnce() -> String>(&mut self, f: F) {
        if let Some(file) = self.file.as_mut() {
            use std::io::{Seek, SeekFrom};
            let s = f();
            let _ = file.seek(SeekFrom::Start(0));
            let _ = file.set_len(0);
            let _ = file.write_all(s.as_bytes());
            let _ = file.flush();
        }
    }
}
