//! `ktmc expect <tier> <out file>`: what the CORE crates compute on the enumerated inputs of C13, written as text
//! lines for the Python driver (the binding must compute exactly this).
use crate::enumr::{fill, for_each_string, strings, S10, S4, S5};
use crate::out::hex;
use composition::cgr::CgrComputer;
use composition::oligo::OligoComputer;
use kmer::kmer::KmerGenerator;
use kmer::minimiser::MinimiserGenerator;
use std::io::Write;

fn bits(v: f64) -> String {
    format!("{:016x}", v.to_bits())
}

pub fn run(tier: &str, out: &str) -> i32 {
    let thorough = tier == "thorough";
    let f = std::fs::File::create(out).expect("expect file");
    let mut w = std::io::BufWriter::new(f);
    // k-mer iterator
    let kmer_line = |w: &mut std::io::BufWriter<std::fs::File>, s: &[u8], k: usize| {
        let items: Vec<String> = KmerGenerator::new(s, k).map(|(f, r)| format!("{}:{}", f, r)).collect();
        writeln!(w, "K {} {} {}", hex(s), k, items.join(",")).unwrap();
    };
    for_each_string(b"ACGTNug", 0, if thorough { 6 } else { 5 }, |s| {
        for k in 1..=6usize {
            kmer_line(&mut w, s, k);
        }
    });
    for k in [15usize, 30, 31] {
        for u in strings(S4, 1, 2) {
            for p in [&b""[..], b"N", b"ug"] {
                let mut s = p.to_vec();
                s.extend_from_slice(&fill(&u, 2 * k + 1));
                s.extend_from_slice(p);
                kmer_line(&mut w, &s, k);
            }
        }
    }
    // white space and control characters at every position (leading and trailing in particular): they are ordinary
    // ambiguous bytes and positions are byte offsets into the string as given
    for_each_string(b"AC \n\t", 0, if thorough { 6 } else { 5 }, |s| {
        if s.iter().any(|b| b" \n\t".contains(b)) {
            kmer_line(&mut w, s, 1);
            kmer_line(&mut w, s, 2);
            for (wsz, m) in [(1usize, 1usize), (2, 1), (3, 2)] {
                let items: Vec<String> = MinimiserGenerator::new(s, wsz, m).map(|(v, a, b)| format!("{}:{}:{}", v, a, b)).collect();
                writeln!(w, "M {} {} {} {}", hex(s), wsz, m, items.join(",")).unwrap();
            }
        }
    });
    for lead in ["\u{a0}", "\u{3000}", "\r\n", "\u{2028}", "\u{feff}", "\u{85}"] {
        for body in ["ACGTAC", "AC", "ACNGT"] {
            for (pre, post) in [(true, false), (false, true), (true, true)] {
                let st = format!("{}{}{}", if pre { lead } else { "" }, body, if post { lead } else { "" });
                let b = st.as_bytes();
                kmer_line(&mut w, b, 2);
                for (wsz, m) in [(2usize, 1usize), (3, 2)] {
                    let items: Vec<String> = MinimiserGenerator::new(b, wsz, m).map(|(v, a, c)| format!("{}:{}:{}", v, a, c)).collect();
                    writeln!(w, "M {} {} {} {}", hex(b), wsz, m, items.join(",")).unwrap();
                }
            }
        }
    }
    // long inputs (thousands of items per iterator)
    for (len, seed) in [(1030usize, 5u64), (2049, 6), (5000, 1), (20_000, 3), (70_000, 4)] {
        let s = crate::iters::long_input(len, seed);
        for k in [1usize, 4, 31] {
            kmer_line(&mut w, &s, k);
        }
        for (wsz, m) in [(1usize, 1usize), (5, 3), (31, 7), (40, 28)] {
            let items: Vec<String> = MinimiserGenerator::new(&s, wsz, m).map(|(v, a, b)| format!("{}:{}:{}", v, a, b)).collect();
            writeln!(w, "M {} {} {} {}", hex(&s), wsz, m, items.join(",")).unwrap();
        }
    }
    // uninterrupted clean runs beyond 2^16 and 2^17 bases
    {
        let s = crate::iters::clean_run_input();
        for k in [1usize, 31] {
            kmer_line(&mut w, &s, k);
        }
        for (wsz, m) in [(5usize, 3usize), (40, 28)] {
            let items: Vec<String> = MinimiserGenerator::new(&s, wsz, m).map(|(v, a, b)| format!("{}:{}:{}", v, a, b)).collect();
            writeln!(w, "M {} {} {} {}", hex(&s), wsz, m, items.join(",")).unwrap();
        }
    }
    // minimiser iterator
    for_each_string(S5, 0, if thorough { 7 } else { 6 }, |s| {
        for wsz in 1..=4usize {
            for m in 1..=wsz {
                let items: Vec<String> = MinimiserGenerator::new(s, wsz, m).map(|(v, a, b)| format!("{}:{}:{}", v, a, b)).collect();
                writeln!(w, "M {} {} {} {}", hex(s), wsz, m, items.join(",")).unwrap();
            }
        }
    });
    for (wsz, m) in [(31usize, 7usize), (40, 28), (91, 31)] {
        for u in strings(S4, 1, 2) {
            let mut s = fill(&u, 2 * wsz + 1);
            s[wsz / 2] = b'N';
            let items: Vec<String> = MinimiserGenerator::new(&s, wsz, m).map(|(v, a, b)| format!("{}:{}:{}", v, a, b)).collect();
            writeln!(w, "M {} {} {} {}", hex(&s), wsz, m, items.join(",")).unwrap();
        }
    }
    // oligo vector and header
    for k in 1..=3usize {
        let norm = OligoComputer::new("-".into(), "-".into(), k);
        let mut raw = OligoComputer::new("-".into(), "-".into(), k);
        raw.set_norm(false);
        for_each_string(b"ACGTNu", 0, if thorough { 6 } else { 5 }, |s| {
            for (flag, c) in [(1, &norm), (0, &raw)] {
                let v: Vec<String> = c.verif_vectorise_one(s).iter().map(|x| bits(*x)).collect();
                writeln!(w, "O {} {} {} {}", hex(s), k, flag, v.join(",")).unwrap();
            }
        });
    }
    for k in 1..=8usize {
        writeln!(w, "H {} {}", k, OligoComputer::new("-".into(), "-".into(), k).verif_get_header().join(",")).unwrap();
    }
    // decoding of k-mer codes (to_acgt of both iterator classes)
    for k in 1..=6usize {
        for x in 0..(1u64 << (2 * k)) {
            writeln!(w, "T {} {} {}", k, x, kmer::numeric_to_kmer(x, k)).unwrap();
        }
    }
    for k in [15usize, 16, 17, 28, 30, 31] {
        for x in [0u64, 1, 2, 3, (1u64 << (2 * k)) - 1, (1u64 << (2 * k - 1)) + 5, 0x1234_5678_9abc_def0 & ((1u64 << (2 * k)) - 1)] {
            writeln!(w, "T {} {} {}", k, x, kmer::numeric_to_kmer(x, k)).unwrap();
        }
    }
    // long records for the per-sequence classes
    for (len, seed) in [(5000usize, 1u64), (70_000, 4)] {
        let s = crate::iters::long_input(len, seed);
        let clean: Vec<u8> = s.iter().map(|&b| if b == b'N' { b'A' } else { b }).collect();
        let o3 = OligoComputer::new("-".into(), "-".into(), 3);
        let v: Vec<String> = o3.verif_vectorise_one(&s).iter().map(|x| bits(*x)).collect();
        writeln!(w, "O {} 3 1 {}", hex(&s), v.join(",")).unwrap();
        let c = CgrComputer::new("-".into(), "-".into(), 16);
        if let Ok(p) = c.verif_vectorise_one(&clean) {
            writeln!(w, "G {} 16 {}", hex(&clean), p.iter().map(|q| format!("{}:{}", bits(q.0), bits(q.1))).collect::<Vec<_>>().join(",")).unwrap();
        }
    }
    // lengths at and around round thresholds and whole multiples of 64 Ki
    for (i, &len) in crate::iters::THRESHOLD_LENGTHS.iter().chain([131_072usize, 131_073, 196_608].iter()).enumerate() {
        if len > 200_000 {
            continue;
        }
        let s = crate::iters::long_input(len, 500 + i as u64);
        for k in [2usize, 3, 4] {
            let mut c = OligoComputer::new("-".into(), "-".into(), k);
            c.set_norm(k != 3);
            let v: Vec<String> = c.verif_vectorise_one(&s).iter().map(|x| bits(*x)).collect();
            writeln!(w, "O {} {} {} {}", hex(&s), k, if k != 3 { 1 } else { 0 }, v.join(",")).unwrap();
        }
        if len <= 10_001 || len == 65_537 {
            kmer_line(&mut w, &s, 4);
        }
    }
    // one sequence with more than 2^24 windows, all in one column and spread over three ("OR": unit, length)
    for unit in [&b"A"[..], b"ACG"] {
        for (flag, k) in [(1usize, 3usize), (0, 3), (0, 1)] {
            let n = (1usize << 24) + 9 + k;
            let s = fill(unit, n);
            let mut c = OligoComputer::new("-".into(), "-".into(), k);
            c.set_norm(flag == 1);
            let v: Vec<String> = c.verif_vectorise_one(&s).iter().map(|x| bits(*x)).collect();
            writeln!(w, "OR {} {} {} {} {}", hex(unit), n, k, flag, v.join(",")).unwrap();
        }
    }
    // CGR (values and refusals)
    for s_size in [1usize, 16, 1000] {
        let c = CgrComputer::new("-".into(), "-".into(), s_size);
        let line = |w: &mut std::io::BufWriter<std::fs::File>, s: &[u8]| match c.verif_vectorise_one(s) {
            Ok(p) => writeln!(w, "G {} {} {}", hex(s), s_size, p.iter().map(|q| format!("{}:{}", bits(q.0), bits(q.1))).collect::<Vec<_>>().join(",")).unwrap(),
            Err(_) => writeln!(w, "G {} {} ERR", hex(s), s_size).unwrap(),
        };
        for_each_string(S10, 0, if thorough { 5 } else { 4 }, |s| line(&mut w, s));
        for_each_string(b"ACGTNx", 1, 4, |s| {
            if s.iter().any(|b| !S4.contains(b)) {
                line(&mut w, s)
            }
        });
    }
    // unicode: the binding sees the UTF-8 bytes
    let uni: Vec<&str> = vec!["A", "c", "N", "\u{e9}", "\u{3a9}", "\u{1d11e}"];
    let mut idx = vec![0usize; 0];
    for len in 0..=4usize {
        idx.clear();
        idx.resize(len, 0);
        loop {
            let s: String = idx.iter().map(|&i| uni[i]).collect();
            let b = s.as_bytes();
            for k in 1..=2usize {
                kmer_line(&mut w, b, k);
            }
            let items: Vec<String> = MinimiserGenerator::new(b, 2, 1).map(|(v, a, c)| format!("{}:{}:{}", v, a, c)).collect();
            writeln!(w, "M {} 2 1 {}", hex(b), items.join(",")).unwrap();
            let c = CgrComputer::new("-".into(), "-".into(), 4);
            match c.verif_vectorise_one(b) {
                Ok(p) => writeln!(w, "G {} 4 {}", hex(b), p.iter().map(|q| format!("{}:{}", bits(q.0), bits(q.1))).collect::<Vec<_>>().join(",")).unwrap(),
                Err(_) => writeln!(w, "G {} 4 ERR", hex(b)).unwrap(),
            }
            let mut p = len;
            let mut done = true;
            while p > 0 {
                p -= 1;
                idx[p] += 1;
                if idx[p] < uni.len() {
                    done = false;
                    break;
                }
                idx[p] = 0;
            }
            if done {
                break;
            }
        }
    }
    // every code point of the Basic Multilingual Plane (and a stride through the astral planes) inside a short clean
    // context: the binding must treat exactly the UTF-8 bytes, whatever the code point's low byte looks like
    let c4 = CgrComputer::new("-".into(), "-".into(), 4);
    let o1 = OligoComputer::new("-".into(), "-".into(), 1);
    let mut cps: Vec<u32> = (0u32..=0xFFFF).filter(|c| !(0xD800..=0xDFFF).contains(c)).collect();
    let stride = if thorough { 17 } else { 257 };
    cps.extend((0x10000u32..=0x10FFFF).step_by(stride));
    for cp in cps {
        let ch = match char::from_u32(cp) {
            Some(c) => c,
            None => continue,
        };
        let s: String = ['A', ch, 'c'].iter().collect();
        let b = s.as_bytes();
        kmer_line(&mut w, b, 1);
        match c4.verif_vectorise_one(b) {
            Ok(p) => writeln!(w, "G {} 4 {}", hex(b), p.iter().map(|q| format!("{}:{}", bits(q.0), bits(q.1))).collect::<Vec<_>>().join(",")).unwrap(),
            Err(_) => writeln!(w, "G {} 4 ERR", hex(b)).unwrap(),
        }
        let single: String = [ch].iter().collect();
        match c4.verif_vectorise_one(single.as_bytes()) {
            Ok(p) => writeln!(w, "G {} 4 {}", hex(single.as_bytes()), p.iter().map(|q| format!("{}:{}", bits(q.0), bits(q.1))).collect::<Vec<_>>().join(",")).unwrap(),
            Err(_) => writeln!(w, "G {} 4 ERR", hex(single.as_bytes())).unwrap(),
        }
        if cp % 16 == 1 || cp < 0x800 {
            // the code point first and last as well (and twice in a row at the start)
            for t in [[ch, 'A', 'c'].iter().collect::<String>(), ['A', 'c', ch].iter().collect(), [ch, ch, 'G'].iter().collect()] {
                let tb = t.as_bytes();
                kmer_line(&mut w, tb, 1);
                match c4.verif_vectorise_one(tb) {
                    Ok(p) => writeln!(w, "G {} 4 {}", hex(tb), p.iter().map(|q| format!("{}:{}", bits(q.0), bits(q.1))).collect::<Vec<_>>().join(",")).unwrap(),
                    Err(_) => writeln!(w, "G {} 4 ERR", hex(tb)).unwrap(),
                }
                let items: Vec<String> = MinimiserGenerator::new(tb, 2, 1).map(|(v, a, c)| format!("{}:{}:{}", v, a, c)).collect();
                writeln!(w, "M {} 2 1 {}", hex(tb), items.join(",")).unwrap();
            }
            let v: Vec<String> = o1.verif_vectorise_one(b).iter().map(|x| bits(*x)).collect();
            writeln!(w, "O {} 1 1 {}", hex(b), v.join(",")).unwrap();
            let items: Vec<String> = MinimiserGenerator::new(b, 1, 1).map(|(v, a, c)| format!("{}:{}:{}", v, a, c)).collect();
            writeln!(w, "M {} 1 1 {}", hex(b), items.join(",")).unwrap();
        }
    }
    w.flush().unwrap();
    0
}
