//! Exhaustive enumerators (odometers, no RNG) and the shard filter.
#![allow(dead_code)]

#[derive(Clone, Copy)]
pub struct Shard {
    pub idx: u64,
    pub n: u64,
    counter: u64,
}

impl Shard {
    pub fn new(idx: u64, n: u64) -> Self {
        Shard { idx, n, counter: 0 }
    }
    pub fn all() -> Self {
        Shard::new(0, 1)
    }
    /// true iff the next case (in global enumeration order) belongs to this shard
    #[inline]
    pub fn mine(&mut self) -> bool {
        // scrambled assignment so that periodic inner loops do not line up with the shard count
        let h = (self.counter.wrapping_mul(0x9E37_79B9_7F4A_7C15) >> 29) % self.n;
        self.counter += 1;
        h == self.idx
    }
    pub fn is_first(&self) -> bool {
        self.idx == 0
    }
}

/// all strings over `alpha` of length lo..=hi, shortest first, lexicographic in alphabet order
pub fn for_each_string<F: FnMut(&[u8])>(alpha: &[u8], lo: usize, hi: usize, mut f: F) {
    let a = alpha.len();
    for len in lo..=hi {
        let mut idx = vec![0usize; len];
        let mut s: Vec<u8> = vec![alpha[0]; len];
        loop {
            f(&s);
            // increment odometer (last position fastest)
            let mut p = len;
            let mut done = true;
            while p > 0 {
                p -= 1;
                idx[p] += 1;
                if idx[p] < a {
                    s[p] = alpha[idx[p]];
                    done = false;
                    break;
                }
                idx[p] = 0;
                s[p] = alpha[0];
            }
            if done {
                break;
            }
        }
    }
}

/// collect all strings (small spaces only)
pub fn strings(alpha: &[u8], lo: usize, hi: usize) -> Vec<Vec<u8>> {
    let mut v = Vec::new();
    for_each_string(alpha, lo, hi, |s| v.push(s.to_vec()));
    v
}

pub fn count_strings(alpha: usize, lo: usize, hi: usize) -> u64 {
    (lo..=hi).map(|l| (alpha as u64).pow(l as u32)).sum()
}

/// `unit` repeated and cut to exactly n bytes
pub fn fill(unit: &[u8], n: usize) -> Vec<u8> {
    (0..n).map(|i| unit[i % unit.len()]).collect()
}

pub const S4: &[u8] = b"ACGT";
pub const S5: &[u8] = b"ACGTN";
pub const S10: &[u8] = b"ACGTUacgtu";

#[cfg(test)]
mod tests {
    use super::*;
    #[test]
    fn counts() {
        for a in 1..4usize {
            for hi in 0..5usize {
                let alpha: Vec<u8> = (0..a as u8).map(|i| b'a' + i).collect();
                let v = strings(&alpha, 0, hi);
                assert_eq!(v.len() as u64, count_strings(a, 0, hi));
                let mut w = v.clone();
                w.sort();
                w.dedup();
                assert_eq!(w.len(), v.len());
            }
        }
    }
}

/// record counts at and around the powers of two a writer could plausibly chunk its work by
pub const POW2_COUNTS: [usize; 18] = [255, 256, 257, 511, 512, 513, 1023, 1024, 1025, 2047, 2048, 2049, 4095, 4096, 4097, 8191, 8192, 8193];

/// record counts at and around round decimal numbers (thresholds a maintainer would write by hand)
pub const DEC_COUNTS: [usize; 12] = [99, 100, 101, 999, 1000, 1001, 9_999, 10_000, 10_001, 99_999, 100_000, 100_001];
