//! Reference models (oracles). Deliberately boring, sharing no code with /repo.
#![allow(dead_code)]
use std::collections::BTreeMap;

/// 2-bit class of a byte, None = ambiguous.
pub fn class(b: u8) -> Option<u8> {
    match b {
        b'A' | b'a' => Some(0),
        b'C' | b'c' => Some(1),
        b'G' | b'g' => Some(2),
        b'T' | b't' | b'U' | b'u' => Some(3),
        _ => None,
    }
}

pub fn pow4(k: usize) -> u128 {
    1u128 << (2 * k)
}

/// base-4 number of a clean text (leftmost base most significant)
pub fn code_of(text: &[u8]) -> Option<u128> {
    let mut x: u128 = 0;
    for &b in text {
        x = x * 4 + class(b)? as u128;
    }
    Some(x)
}

/// digits (most significant first) of a code
pub fn digits(x: u128, k: usize) -> Vec<u8> {
    let mut d = vec![0u8; k];
    let mut x = x;
    for i in (0..k).rev() {
        d[i] = (x % 4) as u8;
        x /= 4;
    }
    d
}

pub fn text_of(x: u128, k: usize) -> Vec<u8> {
    digits(x, k).iter().map(|&d| b"ACGT"[d as usize]).collect()
}

/// reverse complement of a code, via its digit text
pub fn rc_code(x: u128, k: usize) -> u128 {
    let d = digits(x, k);
    let mut y: u128 = 0;
    for &c in d.iter().rev() {
        y = y * 4 + (3 - c) as u128;
    }
    y
}

pub fn canon(x: u128, k: usize) -> u128 {
    x.min(rc_code(x, k))
}

/// reverse-complemented text; bytes that are not nucleotides stay as they are (in mirrored place)
pub fn rc_text(seq: &[u8]) -> Vec<u8> {
    seq.iter()
        .rev()
        .map(|&b| match b {
            b'A' => b'T',
            b'C' => b'G',
            b'G' => b'C',
            b'T' | b'U' => b'A',
            b'a' => b't',
            b'c' => b'g',
            b'g' => b'c',
            b't' | b'u' => b'a',
            o => o,
        })
        .collect()
}

/// every valid window: (start, forward code, reverse-strand code)
pub fn windows(seq: &[u8], k: usize) -> Vec<(usize, u128, u128)> {
    let mut out = Vec::new();
    if k == 0 || seq.len() < k {
        return out;
    }
    for i in 0..=(seq.len() - k) {
        if let Some(f) = code_of(&seq[i..i + k]) {
            out.push((i, f, rc_code(f, k)));
        }
    }
    out
}

/// canonical codes of all valid windows in order
pub fn canon_stream(seq: &[u8], k: usize) -> Vec<u128> {
    windows(seq, k).into_iter().map(|(_, f, r)| f.min(r)).collect()
}

/// brute-force minimiser runs: (value, first window start, last window end)
pub fn runs(seq: &[u8], w: usize, m: usize) -> Vec<(u64, usize, usize)> {
    let mut out: Vec<(u64, usize, usize)> = Vec::new();
    if m == 0 || w < m || seq.len() < w {
        return out;
    }
    // canonical m-mer at every start (None when not clean)
    let mm: Vec<Option<u128>> = (0..=(seq.len() - m))
        .map(|j| code_of(&seq[j..j + m]).map(|f| canon(f, m)))
        .collect();
    let mut prev: Option<(usize, u128)> = None; // (start of previous valid window, its minimiser)
    for i in 0..=(seq.len() - w) {
        let clean = seq[i..i + w].iter().all(|&b| class(b).is_some());
        if !clean {
            prev = None;
            continue;
        }
        let mini = (i..=(i + w - m)).map(|j| mm[j].unwrap()).min().unwrap();
        match prev {
            Some((p, v)) if p + 1 == i && v == mini => {
                out.last_mut().unwrap().2 = i + w;
            }
            _ => out.push((mini as u64, i, i + w)),
        }
        prev = Some((i, mini));
    }
    out
}

/// the same function as `runs` for windows too wide for the definition-by-enumeration above: the minimum of each
/// window is kept in a monotone queue of (start, canonical m-mer). `runs_agree_on_small_scope` holds the two against
/// each other on every short input before the wide-window families rely on this one.
pub fn runs_wide(seq: &[u8], w: usize, m: usize) -> Vec<(u64, usize, usize)> {
    let mut out: Vec<(u64, usize, usize)> = Vec::new();
    if m == 0 || w < m || seq.len() < w {
        return out;
    }
    let n = seq.len();
    // position of the last ambiguous byte at or before each index (usize::MAX: none yet)
    let mut queue: std::collections::VecDeque<(usize, u128)> = std::collections::VecDeque::new();
    let mut last_bad: Option<usize> = None;
    let mut prev: Option<(usize, u128)> = None;
    let mut mm_ready: usize = 0; // m-mers with start < mm_ready have been pushed
    for i in 0..=(n - w) {
        // ambiguous bytes entering the window [i, i + w)
        let from = if i == 0 { 0 } else { i + w - 1 };
        for (j, &b) in seq.iter().enumerate().take(i + w).skip(from) {
            if class(b).is_none() {
                last_bad = Some(j);
            }
        }
        if let Some(b) = last_bad {
            if b >= i {
                prev = None;
                continue;
            }
        }
        // the window is clean: m-mers starting in [i, i + w - m]
        if mm_ready < i || queue.is_empty() && mm_ready <= i {
            queue.clear();
            mm_ready = mm_ready.max(i);
        }
        while mm_ready <= i + w - m {
            let j = mm_ready;
            mm_ready += 1;
            if let Some(f) = code_of(&seq[j..j + m]) {
                let c = canon(f, m);
                while queue.back().map_or(false, |&(_, v)| v > c) {
                    queue.pop_back();
                }
                queue.push_back((j, c));
            } else {
                queue.clear(); // cannot happen inside a clean window; m-mers before a gap are never needed again
            }
        }
        while queue.front().map_or(false, |&(j, _)| j < i) {
            queue.pop_front();
        }
        let mini = queue.front().unwrap().1;
        match prev {
            Some((p, v)) if p + 1 == i && v == mini => {
                out.last_mut().unwrap().2 = i + w;
            }
            _ => out.push((mini as u64, i, i + w)),
        }
        prev = Some((i, mini));
    }
    out
}

/// sorted list of canonical codes of size k
pub fn canon_index(k: usize) -> Vec<u128> {
    (0..pow4(k)).filter(|&x| x <= rc_code(x, k)).collect()
}

pub fn column_count_closed_form(k: usize) -> u128 {
    if k % 2 == 0 {
        (pow4(k) + pow4(k / 2)) / 2
    } else {
        pow4(k) / 2
    }
}

/// integer counts per canonical rank, and the window total
pub fn oligo(seq: &[u8], k: usize, index: &[u128]) -> (Vec<u64>, u64) {
    let mut v = vec![0u64; index.len()];
    let mut t = 0u64;
    for c in canon_stream(seq, k) {
        let r = index.binary_search(&c).expect("canonical code in index");
        v[r] += 1;
        t += 1;
    }
    (v, t)
}

/// |val - c/t| within 5e-7 (+1e-12 slack); t == 0 means the expected value is 0
pub fn close_to_ratio(val: f64, c: u64, t: u64) -> bool {
    let exp = if t == 0 { 0.0 } else { c as f64 / t as f64 };
    val.is_finite() && (val - exp).abs() <= 5e-7 + 1e-12
}

/// counts of canonical k-mers over a list of records
pub fn counts(records: &[Vec<u8>], k: usize) -> BTreeMap<u128, u64> {
    let mut m = BTreeMap::new();
    for r in records {
        for c in canon_stream(r, k) {
            *m.entry(c).or_insert(0u64) += 1;
        }
    }
    m
}

/// coverage histogram of one record
pub fn histogram(
    seq: &[u8],
    k: usize,
    table: &BTreeMap<u128, u64>,
    bin_size: u64,
    bin_count: usize,
) -> (Vec<u64>, u64) {
    let mut v = vec![0u64; bin_count];
    let mut t = 0u64;
    for c in canon_stream(seq, k) {
        let mult = *table.get(&c).unwrap_or(&0);
        let b = std::cmp::min((mult / bin_size) as usize, bin_count - 1);
        v[b] += 1;
        t += 1;
    }
    (v, t)
}

/// exact dyadic chaos-game points: (xnum, ynum, j) meaning (xnum / 2^j, ynum / 2^j), scaled by S.
/// Point i = midpoint of point i-1 and the corner of base i, starting at the centre (S/2, S/2).
/// Returns None if a byte is not one of ACGTU (either case).
pub fn cgr_exact(seq: &[u8], s: u128) -> Option<Vec<(u128, u128, u32)>> {
    // position = num / 2^j ; start: S/2 = S / 2^1
    let mut x = s;
    let mut y = s;
    let mut j: u32 = 1;
    let mut out = Vec::with_capacity(seq.len());
    for &b in seq {
        let (cx, cy) = match class(b)? {
            0 => (0u128, 0u128),
            1 => (0, s),
            2 => (s, s),
            _ => (s, 0),
        };
        // new = (corner + old)/2 = (corner*2^j + num) / 2^(j+1)
        if j >= 100 {
            return None; // outside exact range of this model (never reached by the enumerations)
        }
        x += cx << j;
        y += cy << j;
        j += 1;
        out.push((x, y, j));
    }
    Some(out)
}

/// is num / 2^j exactly this f64?
pub fn dyadic_eq(num: u128, j: u32, v: f64) -> bool {
    if !v.is_finite() || v < 0.0 {
        return false;
    }
    // reduce
    let mut num = num;
    let mut j = j;
    while j > 0 && num % 2 == 0 {
        num /= 2;
        j -= 1;
    }
    if num >= (1u128 << 53) {
        return false; // not exactly representable: caller must use containment instead
    }
    let exact = (num as f64) / 2f64.powi(j as i32); // exact: num < 2^53 and division by a power of two
    exact == v
}

pub fn dyadic_representable(num: u128, j: u32) -> bool {
    let mut num = num;
    let mut j = j;
    while j > 0 && num % 2 == 0 {
        num /= 2;
        j -= 1;
    }
    num < (1u128 << 53) && j < 1000
}
