//! `ktmc lib <kind> key=value...`: one library call with explicit settings (used by the process-level engines as
//! the "library result for the same settings" and as a transition function that can reach settings the CLI refuses).
use std::collections::HashMap;

fn get<'a>(m: &'a HashMap<String, String>, k: &str) -> &'a str {
    m.get(k).map(|s| s.as_str()).unwrap_or_else(|| panic!("missing argument {k}="))
}
fn opt<'a>(m: &'a HashMap<String, String>, k: &str, d: &'a str) -> &'a str {
    m.get(k).map(|s| s.as_str()).unwrap_or(d)
}

fn delim_of(s: &str) -> String {
    match s {
        "csv" => ",".into(),
        "tsv" => "\t".into(),
        "spc" => " ".into(),
        other => String::from_utf8(crate::out::unhex(other)).unwrap(),
    }
}

pub fn run(args: &[String]) -> i32 {
    let kind = args[0].as_str();
    let m: HashMap<String, String> = args[1..].iter().filter_map(|a| a.split_once('=').map(|(k, v)| (k.to_string(), v.to_string()))).collect();
    let threads: usize = opt(&m, "threads", "0").parse().unwrap();
    match kind {
        "oligo" => {
            let mut c = composition::oligo::OligoComputer::new(get(&m, "in").into(), get(&m, "out").into(), get(&m, "k").parse().unwrap());
            if threads > 0 {
                c.set_threads(threads);
            }
            c.set_norm(opt(&m, "counts", "0") == "0");
            c.set_header(opt(&m, "header", "0") == "1");
            c.set_delim(delim_of(opt(&m, "preset", "spc")));
            if let Some(mem) = m.get("memory") {
                c.set_max_memory(mem.parse().unwrap());
            }
            let r = match opt(&m, "writer", "auto") {
                "mmap" => c.verif_vectorise_mmap(),
                "batch" => c.verif_vectorise_batch(),
                _ => c.vectorise(),
            };
            if let Err(e) = r {
                eprintln!("Error: {e}");
            }
        }
        "cgr" => {
            let mut c = composition::cgr::CgrComputer::new(get(&m, "in").into(), get(&m, "out").into(), opt(&m, "vecsize", "1").parse().unwrap());
            if threads > 0 {
                c.set_threads(threads);
            }
            if let Some(mem) = m.get("memory") {
                c.verif_set_max_memory(mem.parse().unwrap());
            }
            if let Err(e) = c.vectorise() {
                eprintln!("Error: {e}");
            }
        }
        "kcgr" => {
            let k: usize = get(&m, "k").parse().unwrap();
            let mut c = composition::oligocgr::OligoCgrComputer::new(get(&m, "in").into(), get(&m, "out").into(), k, get(&m, "vecsize").parse().unwrap());
            if threads > 0 {
                c.set_threads(threads);
            }
            c.set_norm(opt(&m, "counts", "0") == "0");
            if let Some(mem) = m.get("memory") {
                c.verif_set_max_memory(mem.parse().unwrap());
            }
            if let Err(e) = c.vectorise() {
                eprintln!("Error: {e}");
            }
        }
        "cov" => {
            let out = get(&m, "out");
            std::fs::create_dir_all(out).unwrap();
            let mut c = coverage::CovComputer::new(get(&m, "in").into(), out.into(), get(&m, "k").parse().unwrap(), get(&m, "binsize").parse().unwrap(), get(&m, "bincount").parse().unwrap());
            if threads > 0 {
                c.set_threads(threads);
            }
            if let Some(a) = m.get("alt") {
                c.set_kmer_path(a.clone());
            }
            if opt(&m, "counts", "0") == "1" {
                c.set_norm(false);
            }
            c.set_max_memory(opt(&m, "memory", "6").parse().unwrap());
            c.set_delim(delim_of(opt(&m, "preset", "spc")));
            c.build_table().unwrap();
            c.compute_coverages();
        }
        "min" => {
            let w: usize = get(&m, "w").parse().unwrap();
            let ms: usize = get(&m, "m").parse().unwrap();
            if opt(&m, "preset", "s2m") == "m2s" {
                misc::minimisers::bin_sequences(w, ms, get(&m, "in"), get(&m, "out"), threads);
            } else {
                misc::minimisers::seq_to_min(w, ms, get(&m, "in"), get(&m, "out"), threads);
            }
        }
        "ctr" => {
            let out = get(&m, "out");
            std::fs::create_dir_all(out).unwrap();
            let mut c = counter::CountComputer::new(get(&m, "in").into(), out.into(), get(&m, "k").parse().unwrap());
            if threads > 0 {
                c.set_threads(threads);
            }
            if opt(&m, "acgt", "0") == "1" {
                c.set_acgt_output(true);
            }
            c.set_max_memory(opt(&m, "memory", "6").parse().unwrap());
            c.count();
            c.merge(opt(&m, "delete", "1") == "1");
        }
        // the FIRST calls of a process, made by several threads at once (whatever a routine builds lazily on first use
        // is built under contention): every thread checks its own results against the model
        "firstcalls" => {
            let n: usize = opt(&m, "threads", "8").parse().unwrap();
            let salt: u64 = opt(&m, "salt", "1").parse().unwrap();
            let barrier = std::sync::Arc::new(std::sync::Barrier::new(n));
            let handles: Vec<_> = (0..n)
                .map(|t| {
                    let barrier = barrier.clone();
                    std::thread::spawn(move || -> Result<(), String> {
                        let mut x: u64 = 0x9e3779b97f4a7c15u64.wrapping_mul(salt + 1).wrapping_add(t as u64 * 7919);
                        let mut next = || {
                            x = x.wrapping_mul(6364136223846793005).wrapping_add(1442695040888963407);
                            x
                        };
                        let text = b"ACGTTGCAAGCTTAGGCATCGANCGGATTACAGATTACACCAGT";
                        barrier.wait();
                        for round in 0..40 {
                            for k in [31usize, 27, 16, 13, 20, 1, 5] {
                                let code = next() >> (64 - 2 * k);
                                let rc = kmer::kmer::KmerGenerator::rev_comp(code, k);
                                if rc as u128 != crate::model::rc_code(code as u128, k) {
                                    return Err(format!("thread {t} round {round}: rev_comp({code}, {k}) = {rc}, model {}", crate::model::rc_code(code as u128, k)));
                                }
                                let txt = kmer::numeric_to_kmer(code, k);
                                if txt.as_bytes() != crate::model::text_of(code as u128, k).as_slice() {
                                    return Err(format!("thread {t} round {round}: numeric_to_kmer({code}, {k}) = {txt:?}"));
                                }
                            }
                            let k = 2 + (t + round) % 4;
                            let (fwd, _inv, cols) = kmer::kmer::KmerGenerator::kmer_pos_maps(k);
                            let index = crate::model::canon_index(k);
                            if cols != index.len() || index.iter().enumerate().any(|(i, &c)| fwd[c as usize] != i) {
                                return Err(format!("thread {t} round {round}: kmer_pos_maps({k}) is not the rank map of the canonical {k}-mers"));
                            }
                            let got: Vec<(u64, u64)> = kmer::kmer::KmerGenerator::new(text, k).collect();
                            let exp: Vec<(u64, u64)> = crate::model::windows(text, k).iter().map(|w| (w.1 as u64, w.2 as u64)).collect();
                            if got != exp {
                                return Err(format!("thread {t} round {round}: KmerGenerator(k={k}) differs from the model"));
                            }
                            let runs: Vec<(u64, usize, usize)> = kmer::minimiser::MinimiserGenerator::new(text, 9, 4).collect();
                            if runs != crate::model::runs(text, 9, 4) {
                                return Err(format!("thread {t} round {round}: MinimiserGenerator(9, 4) differs from the model"));
                            }
                        }
                        Ok(())
                    })
                })
                .collect();
            let mut bad = 0;
            for h in handles {
                match h.join() {
                    Ok(Ok(())) => {}
                    Ok(Err(e)) => {
                        println!("FIRSTCALL-MISMATCH {e}");
                        bad += 1;
                    }
                    Err(_) => {
                        println!("FIRSTCALL-MISMATCH a thread panicked");
                        bad += 1;
                    }
                }
            }
            return if bad > 0 { 1 } else { 0 };
        }
        other => {
            eprintln!("unknown lib kind {other}");
            return 2;
        }
    }
    0
}
