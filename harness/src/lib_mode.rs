//! `ktmc lib <kind> key=value...`: one library call with explicit settings (used by the process-level engines as
//! the "library result for the same settings" and as a transition function that can reach settings the CLI refuses).
use std::collections::HashMap;

fn get<'a>(m: &'a HashMap<String, String>, k: &str) -> &'a str {
    m.get(k).map(|s| s.as_str()).unwrap_or_else(|| panic!("missing argument {k}="))
}
fn opt<'a>(m: &'a HashMap<String, String>, k: &str, d: &'a str) -> &'a str {
    m.get(k).map(|s| s.as_str()).unwrap_or(d)
}

fn delim_of(s: &str) -> String {
    match s {
        "csv" => ",".into(),
        "tsv" => "\t".into(),
        "spc" => " ".into(),
        other => String::from_utf8(crate::out::unhex(other)).unwrap(),
    }
}

pub fn run(args: &[String]) -> i32 {
    let kind = args[0].as_str();
    let m: HashMap<String, String> = args[1..].iter().filter_map(|a| a.split_once('=').map(|(k, v)| (k.to_string(), v.to_string()))).collect();
    let threads: usize = opt(&m, "threads", "0").parse().unwrap();
    match kind {
        "oligo" => {
            let mut c = composition::oligo::OligoComputer::new(get(&m, "in").into(), get(&m, "out").into(), get(&m, "k").parse().unwrap());
            if threads > 0 {
                c.set_threads(threads);
            }
            c.set_norm(opt(&m, "counts", "0") == "0");
            c.set_header(opt(&m, "header", "0") == "1");
            c.set_delim(delim_of(opt(&m, "preset", "spc")));
            if let Some(mem) = m.get("memory") {
                c.set_max_memory(mem.parse().unwrap());
            }
            let r = match opt(&m, "writer", "auto") {
                "mmap" => c.verif_vectorise_mmap(),
                "batch" => c.verif_vectorise_batch(),
                _ => c.vectorise(),
            };
            if let Err(e) = r {
                eprintln!("Error: {e}");
            }
        }
        "cgr" => {
            let mut c = composition::cgr::CgrComputer::new(get(&m, "in").into(), get(&m, "out").into(), opt(&m, "vecsize", "1").parse().unwrap());
            if threads > 0 {
                c.set_threads(threads);
            }
            if let Some(mem) = m.get("memory") {
                c.verif_set_max_memory(mem.parse().unwrap());
            }
            if let Err(e) = c.vectorise() {
                eprintln!("Error: {e}");
            }
        }
        "kcgr" => {
            let k: usize = get(&m, "k").parse().unwrap();
            let mut c = composition::oligocgr::OligoCgrComputer::new(get(&m, "in").into(), get(&m, "out").into(), k, get(&m, "vecsize").parse().unwrap());
            if threads > 0 {
                c.set_threads(threads);
            }
            c.set_norm(opt(&m, "counts", "0") == "0");
            if let Some(mem) = m.get("memory") {
                c.verif_set_max_memory(mem.parse().unwrap());
            }
            if let Err(e) = c.vectorise() {
                eprintln!("Error: {e}");
            }
        }
        "cov" => {
            let out = get(&m, "out");
            std::fs::create_dir_all(out).unwrap();
            let mut c = coverage::CovComputer::new(get(&m, "in").into(), out.into(), get(&m, "k").parse().unwrap(), get(&m, "binsize").parse().unwrap(), get(&m, "bincount").parse().unwrap());
            if threads > 0 {
                c.set_threads(threads);
            }
            if let Some(a) = m.get("alt") {
                c.set_kmer_path(a.clone());
            }
            if opt(&m, "counts", "0") == "1" {
                c.set_norm(false);
            }
            c.set_max_memory(opt(&m, "memory", "6").parse().unwrap());
            c.set_delim(delim_of(opt(&m, "preset", "spc")));
            c.build_table().unwrap();
            c.compute_coverages();
        }
        "min" => {
            let w: usize = get(&m, "w").parse().unwrap();
            let ms: usize = get(&m, "m").parse().unwrap();
            if opt(&m, "preset", "s2m") == "m2s" {
                misc::minimisers::bin_sequences(w, ms, get(&m, "in"), get(&m, "out"), threads);
            } else {
                misc::minimisers::seq_to_min(w, ms, get(&m, "in"), get(&m, "out"), threads);
            }
        }
        "ctr" => {
            let out = get(&m, "out");
            std::fs::create_dir_all(out).unwrap();
            let mut c = counter::CountComputer::new(get(&m, "in").into(), out.into(), get(&m, "k").parse().unwrap());
            if threads > 0 {
                c.set_threads(threads);
            }
            if opt(&m, "acgt", "0") == "1" {
                c.set_acgt_output(true);
            }
            c.set_max_memory(opt(&m, "memory", "6").parse().unwrap());
            c.count();
            c.merge(opt(&m, "delete", "1") == "1");
        }
        other => {
            eprintln!("unknown lib kind {other}");
            return 2;
        }
    }
    0
}
