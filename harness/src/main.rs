//! ktmc - model-checking harness for kmertools (links the real crates from /repo).
mod conc;
mod ctx;
mod enumr;
mod expect;
mod files;
mod iters;
mod lib_mode;
mod model;
mod out;
mod sched;
mod vecs;

use ctx::{Ctx, Tier};
use enumr::Shard;

fn usage() -> ! {
    eprintln!("usage: ktmc run <check> <quick|thorough> <shard> <nshards> <out.json> | ktmc case <kind> <args..>");
    std::process::exit(2)
}

fn scratch_root() -> String {
    let base = std::env::var("KTMC_SCRATCH").unwrap_or_else(|_| {
        if std::path::Path::new("/dev/shm").is_dir() {
            "/dev/shm".to_string()
        } else {
            "/verif/.scratch".to_string()
        }
    });
    let dir = format!("{}/ktmc-{}", base, std::process::id());
    std::fs::create_dir_all(&dir).expect("scratch dir");
    dir
}

fn main() {
    // an argument "@file:<path>" stands for the content of that file (replay arguments beyond the kernel's per-argument limit)
    let args: Vec<String> = std::env::args()
        .map(|a| match a.strip_prefix("@file:") {
            Some(p) => std::fs::read_to_string(p).expect("argument file"),
            None => a,
        })
        .collect();
    if args.len() < 3 {
        usage();
    }
    if args[1] != "lib" {
        ctx::install_panic_hook();
    }
    let scratch = scratch_root();
    // a panic that escapes the per-case guards is a defect of the harness itself: machinery failure (exit 2), never a verdict
    let code = match ctx::guard(|| real_main(&args, &scratch)) {
        Ok(c) => c,
        Err(msg) => {
            eprintln!("MACHINERY: harness panicked outside a guarded subject call: {}", msg);
            2
        }
    };
    let _ = std::fs::remove_dir_all(&scratch);
    std::process::exit(code);
}

fn real_main(args: &[String], scratch: &str) -> i32 {
    match args[1].as_str() {
        "lib" => lib_mode::run(&args[2..]),
        "expect" => expect::run(&args[2], &args[3]),
        "run" => {
            if args.len() < 7 {
                usage();
            }
            let tier = match args[3].as_str() {
                "quick" => Tier::Quick,
                "thorough" => Tier::Thorough,
                _ => usage(),
            };
            let shard = Shard::new(args[4].parse().unwrap(), args[5].parse().unwrap());
            let mut ctx = Ctx {
                tier,
                shard,
                rep: out::Report::new(),
                journal: out::Journal::from_env(),
                scratch: scratch.to_string(),
                clock: std::time::Instant::now(),
            };
            let t0 = std::time::Instant::now();
            match args[2].as_str() {
                "C01" => iters::c01(&mut ctx),
                "C02" => iters::c02(&mut ctx),
                "C09" => iters::c09(&mut ctx),
                "C18" => iters::c18(&mut ctx),
                "C03" => vecs::c03(&mut ctx),
                "C04" => vecs::c04(&mut ctx),
                "C11" => vecs::c11(&mut ctx),
                "C12" => vecs::c12(&mut ctx),
                "C06" => files::c06(&mut ctx),
                "C05sched" => conc::c05_sched(&mut ctx),
                "C14" => conc::c14(&mut ctx),
                "C07sched" => conc::c07_sched(&mut ctx),
                "C10sched" => conc::c10_sched(&mut ctx),
                "C10many" => conc::c10_many(&mut ctx),
                "C05cfg" => conc::c05_lattice(&mut ctx),
                "C10cfg" => conc::c10_configs(&mut ctx),
                "C07cfg" => files::c07_configs(&mut ctx),
                "C08" => files::c08(&mut ctx),
                // the data-parallel batch paths under the controlled scheduler: separate checks, so that a change
                // that defeats the scheduler (exit 2) does not take the enumeration of the same property down with it
                "C04batch" => conc::batch_explore_family(&mut ctx, "oligo"),
                "C08batch" => conc::batch_explore_family(&mut ctx, "cov"),
                "C11batch" => conc::batch_explore_family(&mut ctx, "cgr"),
                "C12batch" => conc::batch_explore_family(&mut ctx, "kcgr"),
                other => {
                    eprintln!("unknown check {}", other);
                    return 2;
                }
            }
            let retries = conc::DETERMINISM_RETRIES.load(std::sync::atomic::Ordering::Relaxed);
            if retries > 0 {
                ctx.rep.count("sched.determinism_precheck_reexamined", retries);
                ctx.rep.notes.push("the determinism pre-check of a schedule exploration saw one odd execution and re-examined it (three further executions agreed)".to_string());
            }
            ctx.rep.count("wall_ms_max", t0.elapsed().as_millis() as u64);
            std::fs::write(&args[6], ctx.rep.to_json()).expect("write report");
            0
        }
        "case" => {
            let mut ctx = Ctx {
                tier: Tier::Quick,
                shard: Shard::all(),
                rep: out::Report::new(),
                journal: out::Journal::from_env(),
                scratch: scratch.to_string(),
                clock: std::time::Instant::now(),
            };
            match args[2].as_str() {
                "C01" | "C01giant" | "C02giant" | "C02code" | "C02stream" | "C09" | "C18" => iters::replay(&mut ctx, &args[2..]),
                "C03" | "C03seq" | "C04" | "C04file" | "C04long" | "C04huge" | "C12huge" | "C11reuse" | "C12reuse" | "C11" | "C11long" | "C11file" | "C12file" | "C12" => vecs::replay(&mut ctx, &args[2..]),
                "C05sched" | "C14sched" | "C14lattice" | "C07sched" => conc::replay(&mut ctx, &args[2..]),
                "C10s2m" | "C10m2s" | "C10s2m-free" | "C10m2s-free" | "C10big" => conc::replay_min(&mut ctx, &args[2..]),
                "C05cfg" => conc::replay_c05cfg(&mut ctx, &args[2..]),
                "C05pair" => conc::replay_c05pair(&mut ctx, &args[2..]),
                "BatchSched" => conc::replay_batch(&mut ctx, &args[2..]),
                "OligoReuse" => conc::replay_oligo_reuse(&mut ctx, &args[2..]),
                "C06" | "C06hist" | "C06long" | "C06idb" | "C06size" | "C06header" | "C06many" | "C06huge" | "C06len" | "C07" | "C08" | "C08one" | "C08bin" | "C08direct" | "C08reuse" => files::replay(&mut ctx, &args[2..]),
                other => {
                    eprintln!("unknown case kind {}", other);
                    return 2;
                }
            }
            if ctx.rep.violation_count > 0 {
                for v in &ctx.rep.violations {
                    println!("REPLAY-VIOLATION key={} {}", v.key, v.desc);
                }
                1
            } else {
                println!("REPLAY-OK");
                0
            }
        }
        _ => usage(),
    }
}
