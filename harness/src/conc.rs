//! C05 / C14 / C07 / C10: exploration of worker interleavings of the real code under the controlled scheduler.
use crate::ctx::Ctx;
use crate::files::check_counter_output;
use crate::model;
use crate::out::{hex, show, unhex, Violation};
use crate::sched::{execute, explore, fmt_choices, parse_choices, Choice, ExecOpts, ExecResult, ExploreCfg};
use crate::vecs::write_fasta;
use composition::oligo::OligoComputer;
use counter::CountComputer;
use std::collections::{BTreeMap, BTreeSet};

const CONTROLLED: ExecOpts = ExecOpts {
    controlled: true,
    logging: true,
    symmetry: true,
};
const FREE_LOGGED: ExecOpts = ExecOpts {
    controlled: false,
    logging: true,
    symmetry: true,
};

fn viol(ctx: &mut Ctx, key: &str, size: usize, desc: String, argv: Vec<String>) {
    // outputs of large cases are quoted in the descriptions: keep the head
    let desc = if desc.len() > 6000 { format!("{} ... [{} bytes in all]", desc.chars().take(6000).collect::<String>(), desc.len()) } else { desc };
    ctx.rep.violation(Violation {
        key: key.to_string(),
        size,
        desc,
        argv,
    });
}

/// decisions an exploration may branch on (0 = all): see `ExploreCfg::window`
static WINDOW: std::sync::atomic::AtomicUsize = std::sync::atomic::AtomicUsize::new(0);

fn window_now() -> Option<usize> {
    match WINDOW.load(std::sync::atomic::Ordering::Relaxed) {
        0 => None,
        w => Some(w),
    }
}

fn with_window<R>(w: usize, f: impl FnOnce() -> R) -> R {
    WINDOW.store(w, std::sync::atomic::Ordering::Relaxed);
    let r = f();
    WINDOW.store(0, std::sync::atomic::Ordering::Relaxed);
    r
}

/// one longer record followed by `n` short ones (three distinct, in rotation): more records than a 16-bit count holds
pub fn many_after_one(n: usize) -> Vec<Vec<u8>> {
    let mut v = vec![long_record(150, 3)];
    let short = [b"ACGTTGCAAGCT".to_vec(), b"GGATCCGATGCA".to_vec(), b"TTTTTTTTTTTT".to_vec()];
    v.extend((0..n).map(|i| short[i % 3].clone()));
    v
}

/// "record>task" pairs; runs of consecutive records taken by one task are written as a range
fn assignment(it: impl Iterator<Item = (u64, usize)>) -> String {
    let mut out: Vec<String> = Vec::new();
    let mut run: Option<(u64, u64, usize)> = None;
    for (rec, task) in it {
        match run {
            Some((a, b, t)) if t == task && rec == b + 1 => run = Some((a, rec, t)),
            Some((a, b, t)) => {
                out.push(if a == b { format!("{a}>{t}") } else { format!("{a}..{b}>{t}") });
                run = Some((rec, rec, task));
            }
            None => run = Some((rec, rec, task)),
        }
    }
    if let Some((a, b, t)) = run {
        out.push(if a == b { format!("{a}>{t}") } else { format!("{a}..{b}>{t}") });
    }
    out.join(",")
}

/// machinery failure: never a verdict
fn machinery(msg: String) -> ! {
    eprintln!("MACHINERY: {}", msg);
    std::process::exit(2);
}

fn engine_health(res: &ExecResult, what: &str, prefix: &[u8]) {
    if let Some(d) = &res.divergence {
        machinery(format!("{what}: replay of prefix {} diverged: {d}", fmt_choices(prefix)));
    }
    if res.stalled {
        machinery(format!("{what}: no progress for 30 s under prefix {} (watchdog)", fmt_choices(prefix)));
    }
}

/// how often the determinism pre-check had to re-examine a disagreement (reported in the evidence)
pub static DETERMINISM_RETRIES: std::sync::atomic::AtomicU64 = std::sync::atomic::AtomicU64::new(0);

/// the same schedule executed twice must give identical observations. A single disagreement is re-examined with
/// three more executions: if those agree among themselves and with one of the first two, the odd one out is
/// reported on stderr in full (for the log) and the exploration goes on - a disagreement that persists is a hard
/// error (uncontrolled nondeterminism: exit 2, never a verdict). Replays of prefixes during the exploration remain
/// guarded by the divergence check in any case.
fn determinism_check<F: FnMut(&[u8]) -> ExecResult>(what: &str, mut run: F) {
    let a = run(&[]);
    // a non-trivial schedule: deviate at the first branching point
    let mut pre: Vec<u8> = Vec::new();
    for c in &a.trace {
        if c.enabled.len() > 1 {
            pre.push(1);
            break;
        }
        pre.push(0);
    }
    let b1 = run(&pre);
    let b2 = run(&pre);
    let same = |x: &ExecResult, y: &ExecResult| x.trace == y.trace && x.events == y.events;
    if !same(&b1, &b2) {
        let i = b1.events.iter().zip(b2.events.iter()).position(|(x, y)| x != y).unwrap_or(b1.events.len().min(b2.events.len()));
        let j = b1.trace.iter().zip(b2.trace.iter()).position(|(x, y)| x != y).unwrap_or(b1.trace.len().min(b2.trace.len()));
        eprintln!("determinism pre-check, {what}, schedule {}: two executions disagree", fmt_choices(&pre));
        eprintln!("first differing event #{i}: {:?} vs {:?}", b1.events.get(i), b2.events.get(i));
        eprintln!("first differing decision #{j}: {:?} vs {:?}", b1.trace.get(j), b2.trace.get(j));
        eprintln!("events before: {:?}", &b1.events[i.saturating_sub(6)..i]);
        eprintln!("run 1: divergence {:?} stalled {} deadlock {} events {} decisions {}; run 2: divergence {:?} stalled {} deadlock {} events {} decisions {}", b1.divergence, b1.stalled, b1.deadlock, b1.events.len(), b1.trace.len(), b2.divergence, b2.stalled, b2.deadlock, b2.events.len(), b2.trace.len());
        let more: Vec<ExecResult> = (0..3).map(|_| run(&pre)).collect();
        let agree = same(&more[0], &more[1]) && same(&more[1], &more[2]) && (same(&more[0], &b1) || same(&more[0], &b2));
        if !agree {
            machinery(format!("{what}: the schedule {} executed five times gave different event logs - uncontrolled nondeterminism", fmt_choices(&pre)));
        }
        eprintln!("three further executions agree with run {}: going on", if same(&more[0], &b1) { 1 } else { 2 });
        DETERMINISM_RETRIES.fetch_add(1, std::sync::atomic::Ordering::Relaxed);
    }
}


fn record_stats(ctx: &mut Ctx, st: &crate::sched::ExploreStats, bound: Option<u32>, label: &str) {
    ctx.rep.count("sched.schedules", st.executions);
    ctx.rep.count("sched.choice_points", st.choice_points);
    ctx.rep.count("sched.branching_points", st.branching_points);
    ctx.rep.set_max("sched.longest_schedule_max", st.max_trace as u64);
    for (p, n) in st.by_preemptions.iter().enumerate() {
        ctx.rep.count(&format!("sched.{label}.schedules_with_{p}_preemptions"), *n);
    }
    if st.capped {
        ctx.rep.count("sched.capped_explorations", 1);
        ctx.rep.notes.push(format!("{label}: execution / time / memory cap hit - not exhaustive for this case; every schedule with at most {:?} preemptions was executed", st.completed_bound));
    }
    if let Some(b) = st.completed_bound {
        ctx.rep.set_max(&format!("sched.{label}.completed_preemption_rounds_max"), b as u64 + 1);
    }
    match bound {
        Some(b) => ctx.rep.set_max(&format!("sched.{label}.preemption_bound_max"), b as u64),
        None => ctx.rep.set_max(&format!("sched.{label}.unbounded_completed_max"), if st.capped { 0 } else { 1 }),
    }
    ctx.rep.count("sched.pruned_by_bound", st.pruned_by_bound);
}

// ------------------------------------------------------------------------------------------ oligo mmap (C05, C14)

#[derive(Clone, Debug)]
pub struct OligoCase {
    pub threads: usize,
    pub k: usize,
    pub header: bool,
    pub delim: String,
    pub records: Vec<Vec<u8>>,
    /// batch-memory limit in bases (None = the default 4 GiB)
    pub memory: Option<usize>,
}

impl OligoCase {
    fn argv(&self, kind: &str, choices: &[u8]) -> Vec<String> {
        vec![
            "case".into(),
            kind.into(),
            self.threads.to_string(),
            self.k.to_string(),
            (self.header as u8).to_string(),
            hex(self.delim.as_bytes()),
            self.records.iter().map(|r| hex(r)).collect::<Vec<_>>().join(","),
            fmt_choices(choices),
            self.memory.map(|m| m.to_string()).unwrap_or_else(|| "default".into()),
        ]
    }
    fn from_argv(a: &[String]) -> (OligoCase, Vec<u8>) {
        (
            OligoCase {
                threads: a[0].parse().unwrap(),
                k: a[1].parse().unwrap(),
                header: a[2] == "1",
                delim: String::from_utf8(unhex(&a[3])).unwrap(),
                records: if a[4].is_empty() { vec![] } else { a[4].split(',').map(unhex).collect() },
                memory: a.get(6).and_then(|m| m.parse().ok()),
            },
            parse_choices(a.get(5).map(|s| s.as_str()).unwrap_or("")),
        )
    }
    fn describe(&self) -> String {
        format!("oligo mmap writer: {} workers, k={}, header={}, delimiter {:?}, batch-memory limit {}, records {:?}", self.threads, self.k, self.header, self.delim, self.memory.map(|m| m.to_string()).unwrap_or_else(|| "default".into()), self.records.iter().map(|r| show(r)).collect::<Vec<_>>())
    }
}

fn oligo_exec(case: &OligoCase, inp: &str, outp: &str, prefix: &[u8], opts: ExecOpts) -> (Result<Result<(), String>, String>, ExecResult, Vec<u8>) {
    // the output of the previous case is deliberately left in place: sizes go up and down over the same path
    let (r, res) = execute(prefix, opts, || {
        let mut oc = OligoComputer::new(inp.to_string(), outp.to_string(), case.k);
        oc.set_threads(case.threads);
        oc.set_header(case.header);
        oc.set_delim(case.delim.clone());
        if let Some(m) = case.memory {
            oc.set_max_memory(m);
        }
        oc.verif_vectorise_mmap()
    });
    let bytes = std::fs::read(outp).unwrap_or_default();
    (r, res, bytes)
}

/// reference output for a case, built from the model (row i = record i), used for C05
fn oligo_reference(case: &OligoCase) -> (Vec<u8>, usize, usize) {
    let index = model::canon_index(case.k);
    let mut out: Vec<u8> = Vec::new();
    let mut header_len = 0;
    if case.header {
        let names: Vec<String> = index.iter().map(|&c| String::from_utf8(model::text_of(c, case.k)).unwrap()).collect();
        out.extend_from_slice(names.join(&case.delim).as_bytes());
        out.push(b'\n');
        header_len = out.len();
    }
    let mut row_len = 0;
    for r in &case.records {
        let (cnt, tot) = model::oligo(r, case.k, &index);
        let row: Vec<String> = cnt.iter().map(|&c| format!("{:.6}", if tot == 0 { 0.0 } else { c as f64 / tot as f64 })).collect();
        let line = row.join(&case.delim) + "\n";
        row_len = line.len();
        out.extend_from_slice(line.as_bytes());
    }
    (out, header_len, row_len)
}

/// C05 oracle: does the output hold, for every i, the row of record i (header and delimiter as requested)?
/// Values are compared with the model within the 6-decimal tolerance, so a different but correct way of
/// computing or rounding a frequency is not an alarm; rows of different records differ by far more than that.
fn oligo_rows_in_order(case: &OligoCase, bytes: &[u8]) -> Result<(), (String, String)> {
    let index = model::canon_index(case.k);
    let text = match std::str::from_utf8(bytes) {
        Ok(t) => t,
        Err(_) => return Err(("row-content".into(), "output is not text (NUL or binary bytes)".into())),
    };
    let mut lines: Vec<&str> = text.split('\n').collect();
    if lines.last() == Some(&"") {
        lines.pop();
    } else if !text.is_empty() {
        return Err(("row-content".into(), "output does not end with a line feed".into()));
    }
    if case.header {
        let names: Vec<String> = index.iter().map(|&c| String::from_utf8(model::text_of(c, case.k)).unwrap()).collect();
        if lines.is_empty() || lines[0] != names.join(&case.delim) {
            return Err(("header-line".into(), format!("first line {:?} is not the header", lines.first().map(|l| &l[..l.len().min(60)]))));
        }
        lines.remove(0);
    }
    if lines.len() != case.records.len() {
        return Err(("output-size".into(), format!("{} rows for {} records", lines.len(), case.records.len())));
    }
    let parse = |line: &str| -> Option<Vec<f64>> {
        if case.delim.is_empty() {
            if line.len() != index.len() * 8 {
                return None;
            }
            return (0..index.len()).map(|i| line[i * 8..i * 8 + 8].parse::<f64>().ok()).collect();
        }
        let toks: Vec<&str> = line.split(case.delim.as_str()).collect();
        if toks.len() != index.len() {
            return None;
        }
        toks.iter().map(|t| t.parse::<f64>().ok()).collect()
    };
    let matches = |vals: &[f64], rec: &[u8]| -> bool {
        let (cnt, tot) = model::oligo(rec, case.k, &index);
        vals.iter().zip(cnt.iter()).all(|(v, &c)| model::close_to_ratio(*v, c, tot))
    };
    for (i, line) in lines.iter().enumerate() {
        let vals = match parse(line) {
            Some(v) => v,
            None => return Err(("row-content".into(), format!("row {i} {:?} is not {} numbers", &line[..line.len().min(60)], index.len()))),
        };
        if !matches(&vals, &case.records[i]) {
            let other = (0..case.records.len()).find(|&j| j != i && matches(&vals, &case.records[j]));
            return Err(match other {
                Some(j) => ("rows-out-of-order".into(), format!("row {i} is the row of record {j}, not of record {i}")),
                None => ("row-content".into(), format!("row {i} {:?} is not the row of record {i}", &line[..line.len().min(60)])),
            });
        }
    }
    Ok(())
}

/// C14 oracle on one execution: the write log and the resulting file
fn c14_check_writes(case: &OligoCase, res: &ExecResult, bytes: &[u8]) -> Result<(), (String, String)> {
    if let Some(v) = &res.write_veto {
        return Err(("write-out-of-range".into(), v.clone()));
    }
    let index_len = model::canon_index(case.k).len();
    let header_len = if case.header { index_len * case.k + (index_len - 1) * case.delim.len() + 1 } else { 0 };
    let mut w = res.writes.clone();
    if w.is_empty() {
        if !case.records.is_empty() || case.header {
            return Err(("bytes-never-written".into(), "no write was issued to the mapped file".into()));
        }
        return if bytes.is_empty() { Ok(()) } else { Err(("file-size".into(), format!("{} bytes in the file but nothing was written", bytes.len()))) };
    }
    let cap = w[0].2;
    for &(pos, len, c) in &w {
        if c != cap {
            return Err(("mapping-size".into(), format!("capacity changed between writes: {c} vs {cap}")));
        }
        if pos + len > cap {
            return Err(("write-out-of-range".into(), format!("write [{pos},{}) beyond the mapping of {cap} bytes", pos + len)));
        }
    }
    if bytes.len() != cap {
        return Err(("file-size".into(), format!("output file has {} bytes but the mapping has {cap}", bytes.len())));
    }
    w.sort();
    let mut end = 0usize;
    for &(pos, len, _) in &w {
        if pos < end {
            return Err(("writes-overlap".into(), format!("write [{pos},{}) overlaps the previous write ending at {end}; log {:?}", pos + len, w)));
        }
        if pos > end {
            return Err(("bytes-never-written".into(), format!("bytes [{end},{pos}) are never written; log {:?}", w)));
        }
        end = pos + len;
    }
    if end != cap {
        return Err(("bytes-never-written".into(), format!("bytes [{end},{cap}) of the mapping are never written; log {:?}", w)));
    }
    // file size = header length + records x row length: one header write (if any) and one equal-sized write per record
    let mut rows: Vec<(usize, usize, usize)> = w.clone();
    if case.header {
        let h = rows.remove(0);
        if h.0 != 0 || h.1 != header_len {
            return Err(("mapping-size".into(), format!("first write is [{},{}) but the header line has {header_len} bytes", h.0, h.0 + h.1)));
        }
    }
    if rows.len() != case.records.len() {
        return Err(("mapping-size".into(), format!("{} row writes for {} records; log {:?}", rows.len(), case.records.len(), w)));
    }
    if let Some(first) = rows.first() {
        if rows.iter().any(|r| r.1 != first.1) {
            return Err(("mapping-size".into(), format!("row writes of different lengths; log {:?}", w)));
        }
        if cap != header_len + case.records.len() * first.1 {
            return Err(("mapping-size".into(), format!("mapping of {cap} bytes, expected header {header_len} + {} x {} = {}", case.records.len(), first.1, header_len + case.records.len() * first.1)));
        }
    }
    if bytes.contains(&0) {
        return Err(("nul-bytes".into(), "the output file contains NUL bytes".into()));
    }
    Ok(())
}

/// explore all schedules of one oligo case; `which` = 5 (row order) or 14 (write log)
pub fn oligo_explore(ctx: &mut Ctx, case: &OligoCase, bound: Option<u32>, which: u32, label: &str) {
    let inp = format!("{}/sched_in.fa", ctx.scratch);
    let outp = format!("{}/sched_out.txt", ctx.scratch);
    write_fasta(&inp, &case.records);
    let (reference, _, _) = oligo_reference(case);
    let what = case.describe();
    if ctx.shard.is_first() || true {
        determinism_check(&what, |p| oligo_exec(case, &inp, &outp, p, CONTROLLED).1);
    }
    let always = |_: &Choice| true;
    let cfg = ExploreCfg {
        bound,
        shard: (ctx.shard.idx, ctx.shard.n),
        split_level: if window_now().is_some() { 1 } else { 2 },
        root: vec![],
        branch: &always,
        max_executions: 3_000_000,
        window: window_now(),
    };
    let kind = if which == 5 { "C05sched" } else { "C14sched" };
    let mut assignments: BTreeSet<String> = BTreeSet::new();
    let mut found: Vec<(String, String, Vec<u8>)> = Vec::new();
    let stats = explore(&cfg, |prefix, counted| {
        let (r, res, bytes) = oligo_exec(case, &inp, &outp, prefix, CONTROLLED);
        engine_health(&res, &what, prefix);
        if counted {
            // record -> worker assignment of this execution (non-vacuity)
            let mut asg = vec![b'?'; case.records.len()];
            for e in &res.events {
                if e.site == "oligo.took" && (e.arg as usize) < asg.len() {
                    asg[e.arg as usize] = b'0' + e.task as u8;
                }
            }
            if asg.len() > 64 {
                assignments.insert(assignment(asg.iter().enumerate().map(|(i, &t)| (i as u64, (t - b'0') as usize))));
            } else {
                assignments.insert(String::from_utf8(asg).unwrap());
            }
        }
        let choices = res.choices();
        let mut bad: Option<(String, String)> = None;
        if which == 5 {
            if res.deadlock {
                bad = Some(("deadlock".into(), "no task enabled but some blocked on a mutex".into()));
            } else if let Some(p) = &res.panicked {
                bad = Some(("panic".into(), format!("a worker panicked: {p}")));
            } else if let Err(p) = &r {
                bad = Some(("panic".into(), format!("panicked: {p}")));
            } else if let Ok(Err(e)) = &r {
                bad = Some(("error".into(), e.clone()));
            } else if let Err((k, m)) = oligo_rows_in_order(case, &bytes) {
                bad = Some((k, format!("{m}; output {:?}, rows in input order {:?}", String::from_utf8_lossy(&bytes), String::from_utf8_lossy(&reference))));
            }
        } else if let Err((k, m)) = c14_check_writes(case, &res, &bytes) {
            bad = Some((k, m));
        }
        if let Some((key, msg)) = bad {
            if found.len() < 3 {
                found.push((key, format!("{what}; schedule {} ({} preemptions): {msg}", fmt_choices(&choices), res.preemptions()), choices));
            }
            return (res, found.len() < 3);
        }
        (res, true)
    });
    record_stats(ctx, &stats, bound, label);
    ctx.rep.evaluations += stats.executions;
    ctx.rep.nontrivial += stats.executions;
    for a in &assignments {
        ctx.rep.outcomes.insert(format!("{label}:{a}"));
    }
    for (key, desc, choices) in found {
        viol(ctx, &key, choices.len() + 1000 * choices.iter().filter(|&&c| c != 0).count(), desc, case.argv(kind, &choices));
    }
}

fn oligo_cases(ctx: &Ctx) -> Vec<(OligoCase, Option<u32>, String)> {
    // records with pairwise different rows
    let recs: Vec<Vec<u8>> = vec![b"AAAC".to_vec(), b"CCG".to_vec(), b"ACGTT".to_vec(), b"GGA".to_vec()];
    let mut v = Vec::new();
    let mut table = vec![
        (2usize, 2usize, 1usize, false, None),
        (2, 3, 1, false, None),
        (2, 3, 2, true, None),
        (2, 4, 1, true, None),
        (3, 2, 1, false, None),
        (3, 3, 1, true, if ctx.thorough() { None } else { Some(4) }),
        (3, 4, 2, false, if ctx.thorough() { None } else { Some(3) }),
        (4, 3, 1, false, Some(ctx.pick(2, 6))),
    ];
    if ctx.thorough() {
        table.push((2, 4, 2, false, None));
        table.push((4, 2, 1, false, None));
        table.push((4, 4, 1, true, Some(4)));
    }
    for (n, r, k, header, bound) in table {
        v.push((
            OligoCase {
                threads: n,
                k,
                header,
                delim: if header { ",".into() } else { " ".into() },
                records: recs[..r].to_vec(),
                memory: None,
            },
            bound,
            format!("N{n}R{r}k{k}{}", if header { "H" } else { "" }),
        ));
    }
    // the batch-memory limit is a public setting of the computer: small limits (about one, two and three records
    // worth of bases) crossed with the interleavings, on enough records for several rounds of pulling
    let six: Vec<Vec<u8>> = vec![b"AAAC".to_vec(), b"CCG".to_vec(), b"ACGTT".to_vec(), b"GGA".to_vec(), b"TTTTA".to_vec(), b"CAG".to_vec()];
    for (n, r, mem, bound) in [(2usize, 5usize, 1usize, Some(ctx.pick(2, 5))), (2, 6, 8, Some(ctx.pick(3, 7))), (2, 6, 11, Some(ctx.pick(3, 7))), (3, 6, 8, Some(ctx.pick(2, 4)))] {
        v.push((
            OligoCase {
                threads: n,
                k: 1,
                header: false,
                delim: " ".into(),
                records: six[..r].to_vec(),
                memory: Some(mem),
            },
            bound,
            format!("N{n}R{r}k1mem{mem}"),
        ));
    }
    v
}

pub fn c05_sched(ctx: &mut Ctx) {
    for (case, bound, label) in oligo_cases(ctx) {
        oligo_explore(ctx, &case, bound, 5, &label);
    }
    // more than 2^16 records: every way of preempting the workers within the first decisions (see `ExploreCfg::window`)
    {
        let recs = many_after_one(65_600);
        for (threads, label) in [(2usize, "N2many"), (3, "N3many")] {
            if threads == 3 && !ctx.thorough() {
                continue; // three workers on the large input: thorough tier
            }
            let case = OligoCase { threads, k: 2, header: false, delim: " ".into(), records: recs.clone(), memory: None };
            let w = ctx.pick(16usize, 40);
            with_window(w, || oligo_explore(ctx, &case, Some(1), 5, label));
        }
    }

    if ctx.shard.is_first() {
        ctx.rep.sample("N=2 workers, records [AAAC, CCG, ACGTT], k=1: schedule 0100210 = worker 0 takes record 0, is preempted before writing, worker 1 takes and writes records 1 and 2, worker 0 writes row 0".to_string());
        ctx.rep.notes.push("C05 schedules: controlled-scheduler DFS over the real vectorise_mmap workers; scheduling points: task start, reader mutex, after a record is taken, task exit; N=2 unbounded, N=3 preemption-bounded; reductions: start symmetry, DFS sharded below 2 deviations".to_string());
    }
}

/// free-running (uncontrolled) run with the write log on: the C14 lattice
fn c14_lattice_case(ctx: &mut Ctx, case: &OligoCase) {
    let mut inp = format!("{}/lat_in.fa", ctx.scratch);
    let outp = format!("{}/lat_out.txt", ctx.scratch);
    // half of the cases whose records all have bases (by case parity) arrive as FASTQ wrapped at 3, with quality lines
    // that start with '@' and '+': the size of the mapping comes from a counting pass over the same file
    if !case.records.is_empty() && case.records.iter().all(|r| !r.is_empty()) && (case.k + case.threads + case.records.len()) % 2 == 0 {
        use crate::files::{serialise, Rec, Ser};
        let recs: Vec<Rec> = case.records.iter().enumerate().map(|(i, r)| Rec { header: format!("r{} d", i), bases: r.clone() }).collect();
        let (text, _) = serialise(&recs, Ser::FastqWrap(3));
        inp = format!("{}/lat_in.fq", ctx.scratch);
        std::fs::write(&inp, text).expect("write fastq");
    } else {
        // the second record has an empty header line (no id): the size of the mapping must not depend on ids
        let mut data: Vec<u8> = Vec::new();
        for (i, r) in case.records.iter().enumerate() {
            data.extend_from_slice(if i == 1 { ">\n".to_string() } else { format!(">r{} d\n", i) }.as_bytes());
            data.extend_from_slice(r);
            data.push(b'\n');
        }
        std::fs::write(&inp, data).expect("write fasta");
    }
    ctx.journal.note(|| format!("C14 lattice {:?}", case));
    ctx.rep.evaluations += 1;
    let (r, res, bytes) = oligo_exec(case, &inp, &outp, &[], FREE_LOGGED);
    let what = case.describe();
    let argv = case.argv("C14lattice", &[]);
    let size = case.k * 100 + case.delim.len() * 10 + case.records.len();
    if let Err((k, m)) = c14_check_writes(case, &res, &bytes) {
        return viol(ctx, &k, size, format!("{what}: {m}"), argv);
    }
    match r {
        Err(p) => return viol(ctx, "panic", size, format!("{what}: panicked: {p}"), argv),
        Ok(Err(e)) => return viol(ctx, "error", size, format!("{what}: {e}"), argv),
        Ok(Ok(())) => {}
    }
    ctx.rep.nontrivial += 1;
}

/// record counts n at which header + n x row lands exactly on a multiple of a page / buffer size (first two
/// solutions per size), with both neighbours
pub fn boundary_counts(header: usize, row: usize, nmax: usize) -> Vec<usize> {
    let mut out: Vec<usize> = Vec::new();
    for b in [4096usize, 8192, 65_536, 1 << 20] {
        let mut found = 0;
        for n in 1..=nmax {
            if (header + n * row) % b == 0 {
                out.extend([n - 1, n, n + 1]);
                found += 1;
                if found == 2 {
                    break;
                }
            }
        }
    }
    out.sort();
    out.dedup();
    out
}

/// sizes of the header line and of one row of the normalised oligo output
pub fn oligo_sizes(k: usize, delim: &str, header: bool) -> (usize, usize) {
    let kcount = model::canon_index(k).len();
    let row = kcount * 8 + (kcount - 1) * delim.len() + 1;
    let h = if header { kcount * k + (kcount - 1) * delim.len() + 1 } else { 0 };
    (h, row)
}

/// mappings whose size is exactly a whole number of pages (and one row less / more)
fn c14_page_boundaries(ctx: &mut Ctx) {
    let mut sh = ctx.shard;
    let mut n_cases = 0u64;
    for (k, delim) in [(1usize, ""), (1, " "), (2, " "), (3, " "), (3, ","), (2, "::"), (2, "\u{b7}"), (3, "\u{ff0c}"), (4, "\t"), (5, " "), (7, " ")] {
        for header in [false, true] {
            let (h, row) = oligo_sizes(k, delim, header);
            for n in boundary_counts(h, row, 33_000) {
                for threads in [1usize, 3, 16] {
                    if !sh.mine() {
                        continue;
                    }
                    let case = OligoCase { threads, k, header, delim: delim.to_string(), records: (0..n).map(|i| long_record(3 + i % 5, i as u64)).collect(), memory: if n % 2 == 0 { Some(1000) } else { None } };
                    c14_lattice_case(ctx, &case);
                    n_cases += 1;
                }
            }
        }
    }
    ctx.rep.count("cases.page_boundaries", n_cases);
}

pub fn c14(ctx: &mut Ctx) {
    // (1) the write log on every schedule of the C05 exploration
    for (case, bound, label) in oligo_cases(ctx) {
        // a two-byte delimiter on the header cases makes row sizes differ from the 1-byte default
        let mut case = case;
        if case.header {
            case.delim = "::".into();
        }
        oligo_explore(ctx, &case, bound, 14, &label);
    }
    // (2) lattice: k x delimiter x header x records x workers, free-running with the log on
    let recs: Vec<Vec<u8>> = vec![b"ACGTAC".to_vec(), b"N".to_vec(), b"GGGTTTAACC".to_vec(), b"".to_vec(), b"acgu".to_vec()];
    let mut sh = ctx.shard;
    let mut n = 0u64;
    for k in 1..=ctx.pick(5, 6) {
        for delim in ["", ",", "\t", " ", "::", "<-->", "\u{b7}", "\u{ff0c} "] {
            for header in [false, true] {
                for r in 0..=ctx.pick(3, 5) {
                    for threads in [1usize, 2, 3, 16] {
                        if !sh.mine() {
                            continue;
                        }
                        let case = OligoCase {
                            threads,
                            k,
                            header,
                            delim: delim.to_string(),
                            records: recs[..r].to_vec(),
                            memory: if (r + threads) % 3 == 0 { Some(7) } else { None },
                        };
                        c14_lattice_case(ctx, &case);
                        n += 1;
                    }
                }
            }
        }
    }
    // a record whose normalised row holds a value just below 1 (one odd window in two million), in the middle and last
    for (threads, k) in [(1usize, 3usize), (4, 4)] {
        if sh.mine() {
            let mut records = crate::vecs::near_one_records();
            records.swap(1, 2);
            let case = OligoCase { threads, k, header: k == 4, delim: if k == 4 { ",".into() } else { " ".into() }, records, memory: None };
            c14_lattice_case(ctx, &case);
            n += 1;
        }
    }
    ctx.rep.count("cases.lattice", n);
    c14_page_boundaries(ctx);
    oligo_reuse(ctx, 14);
    if ctx.shard.is_first() {
        ctx.rep.sample("schedule exploration: N=3, 3 records, k=1, header, delimiter \"::\": every write (pos,len,cap) of every schedule logged; writes must tile [0,cap) exactly".to_string());
        ctx.rep.sample("lattice: k=3, delimiter \"<-->\", header on, 2 records, 16 workers".to_string());
        ctx.rep.notes.push("C14 mmap part: write log (offset, length, capacity) checked on every explored schedule and on a lattice k 1..=5 x 6 delimiters (length 0,1,1,1,2,4) x header x 0..=3 records x workers (1,2,3,16): in range, pairwise disjoint, union = whole file, file size = header + records x row, no NUL. Unchecked indices: every ktmc sweep (C04, C07, C08, C12 spaces) runs the /repo crates with debug assertions, so a violated get_unchecked precondition aborts the shard and is reported with the journalled case".to_string());
    }
}

// ------------------------------------------------------------------------------------------ counter (C07)

#[derive(Clone, Debug)]
pub struct CtrCase {
    pub threads: usize,
    pub k: usize,
    pub mem: f64,
    pub records: Vec<Vec<u8>>,
    pub delete: bool,
}

impl CtrCase {
    fn argv(&self, choices: &[u8]) -> Vec<String> {
        vec![
            "case".into(),
            "C07sched".into(),
            self.threads.to_string(),
            self.k.to_string(),
            format!("{:e}", self.mem),
            (self.delete as u8).to_string(),
            self.records.iter().map(|r| hex(r)).collect::<Vec<_>>().join(","),
            fmt_choices(choices),
        ]
    }
    fn from_argv(a: &[String]) -> (CtrCase, Vec<u8>) {
        (
            CtrCase {
                threads: a[0].parse().unwrap(),
                k: a[1].parse().unwrap(),
                mem: a[2].parse().unwrap(),
                delete: a[3] == "1",
                records: if a[4].is_empty() { vec![] } else { a[4].split(',').map(unhex).collect() },
            },
            parse_choices(a.get(5).map(|s| s.as_str()).unwrap_or("")),
        )
    }
    fn describe(&self) -> String {
        format!("counter: {} workers, k={}, memory ceiling {:e} GB, merge(delete={}), records {:?}", self.threads, self.k, self.mem, self.delete, self.records.iter().map(|r| show(r)).collect::<Vec<_>>())
    }
}

/// canonical form of the temp files between count and merge
fn temp_state(dir: &str) -> String {
    let mut files: Vec<(String, Vec<String>)> = Vec::new();
    if let Ok(rd) = std::fs::read_dir(dir) {
        for e in rd.flatten() {
            let name = e.file_name().to_string_lossy().to_string();
            if name.starts_with("temp_kmers") {
                let mut lines: Vec<String> = std::fs::read_to_string(e.path()).unwrap_or_default().lines().map(|l| l.to_string()).collect();
                lines.sort();
                files.push((name, lines));
            }
        }
    }
    files.sort();
    format!("{:?}", files)
}

struct CtrRun {
    res: ExecResult,
    outcome: Result<(u64, u64), String>,
    inter_state: String,
    verdict: Result<(), (String, String)>,
}

fn ctr_exec(case: &CtrCase, inp: &str, dir: &str, prefix: &[u8]) -> CtrRun {
    let _ = std::fs::remove_dir_all(dir);
    std::fs::create_dir_all(dir).unwrap();
    let mut inter = String::new();
    let (r, res) = execute(prefix, CONTROLLED, || {
        let mut c = CountComputer::new(inp.to_string(), dir.to_string(), case.k);
        c.set_threads(case.threads);
        c.set_max_memory(case.mem);
        c.count();
        inter = temp_state(dir);
        c.merge(case.delete);
        c.verif_grid()
    });
    let mut verdict = Ok(());
    let outcome = match r {
        Err(p) => {
            verdict = Err(("panic".to_string(), format!("panicked: {p}")));
            Err(p)
        }
        Ok(g) => Ok(g),
    };
    if res.deadlock {
        verdict = Err(("deadlock".into(), "no task enabled but some blocked on a mutex".into()));
    } else if let Some(p) = &res.panicked {
        verdict = Err(("panic".into(), format!("a worker panicked: {p}")));
    } else if let Ok(grid) = &outcome {
        verdict = check_counter_output(dir, &case.records, case.k, false, case.delete, *grid);
    }
    CtrRun {
        res,
        outcome,
        inter_state: inter,
        verdict,
    }
}

pub fn ctr_explore(ctx: &mut Ctx, case: &CtrCase, bound: Option<u32>, label: &str) {
    let inp = format!("{}/ctr_in.fa", ctx.scratch);
    let dir = format!("{}/ctr_out", ctx.scratch);
    write_fasta(&inp, &case.records);
    let what = case.describe();
    determinism_check(&what, |p| ctr_exec(case, &inp, &dir, p).res);
    let mut found: Vec<(String, String, Vec<u8>)> = Vec::new();
    // phase A: schedules of the counting scopes (merge scopes follow the default schedule)
    let count_only = |c: &Choice| c.phase_site == "ctr.count";
    let cfg = ExploreCfg {
        bound,
        shard: (ctx.shard.idx, ctx.shard.n),
        split_level: if window_now().is_some() { 1 } else { 2 },
        root: vec![],
        branch: &count_only,
        max_executions: 2_000_000,
        window: window_now(),
    };
    // distinct inter-phase states -> first prefix (complete choice string of the count phases) reaching it
    let mut inter: BTreeMap<String, Vec<u8>> = BTreeMap::new();
    let mut grids: BTreeSet<String> = BTreeSet::new();
    let stats = explore(&cfg, |prefix, counted| {
        let run = ctr_exec(case, &inp, &dir, prefix);
        engine_health(&run.res, &what, prefix);
        let choices = run.res.choices();
        if counted {
            if let Ok((c, p)) = &run.outcome {
                // chunk sizes: records taken per count phase
                let mut per_phase: BTreeMap<usize, usize> = BTreeMap::new();
                for e in &run.res.events {
                    if e.site == "ctr.took" {
                        *per_phase.entry(e.phase).or_insert(0) += 1;
                    }
                }
                grids.insert(format!("{label}: chunks={c} parts={p} records/chunk={:?}", per_phase.values().collect::<Vec<_>>()));
            }
            // the count-phase part of the choice string
            let n_count = run.res.trace.iter().take_while(|c| c.phase_site == "ctr.count").count();
            inter.entry(run.inter_state.clone()).or_insert_with(|| choices[..n_count].to_vec());
        }
        if let Err((key, msg)) = &run.verdict {
            if found.len() < 3 {
                found.push((key.clone(), format!("{what}; schedule {} ({} preemptions): {msg}", fmt_choices(&choices), run.res.preemptions()), choices));
            }
            return (run.res, found.len() < 3);
        }
        (run.res, true)
    });
    record_stats(ctx, &stats, bound, &format!("{label}.count"));
    ctx.rep.evaluations += stats.executions;
    ctx.rep.nontrivial += stats.executions;
    ctx.rep.count("sched.distinct_inter_phase_states", inter.len() as u64);
    // phase B: schedules of the merge scopes, once per distinct on-disk state between the phases and one
    // partition (= one rayon scope, a barrier) at a time: partitions share no map and no file, the only state
    // crossing the barrier is the output written so far by the main thread
    for (_state, root) in inter.iter() {
        if !found.is_empty() {
            break;
        }
        let probe = ctr_exec(case, &inp, &dir, root);
        engine_health(&probe.res, &what, root);
        let merge_phases: BTreeSet<usize> = probe.res.trace.iter().filter(|c| c.phase_site == "ctr.merge").map(|c| c.phase).collect();
        for ph in merge_phases {
            let this_phase = move |c: &Choice| c.phase_site == "ctr.merge" && c.phase == ph;
            let cfg = ExploreCfg {
                bound,
                shard: (0, 1),
                split_level: 0,
                root: root.clone(),
                branch: &this_phase,
                max_executions: 200_000,
                window: window_now(),
            };
            let stats = explore(&cfg, |prefix, _counted| {
                let run = ctr_exec(case, &inp, &dir, prefix);
                engine_health(&run.res, &what, prefix);
                let choices = run.res.choices();
                if let Err((key, msg)) = &run.verdict {
                    if found.len() < 3 {
                        found.push((key.clone(), format!("{what}; schedule {} (merge of one partition explored): {msg}", fmt_choices(&choices)), choices));
                    }
                    return (run.res, found.len() < 3);
                }
                (run.res, true)
            });
            record_stats(ctx, &stats, bound, &format!("{label}.merge"));
            ctx.rep.evaluations += stats.executions;
            ctx.rep.nontrivial += stats.executions;
            ctx.rep.count("sched.merge_phases_explored", 1);
        }
    }
    for g in grids {
        ctx.rep.outcomes.insert(g);
    }
    for (key, desc, choices) in found {
        viol(ctx, &key, choices.len() + 1000 * choices.iter().filter(|&&c| c != 0).count(), desc, case.argv(&choices));
    }
}

pub fn c07_sched(ctx: &mut Ctx) {
    let aca = b"ACA".to_vec();
    let cac = b"CAC".to_vec();
    // base limit per chunk = (1e9 * mem / 8) bases: 4e-9 -> 0, 3.2e-8 -> 4 (one 3-base record does not exceed it, two do)
    let ac = b"AC".to_vec();
    let gt = b"GT".to_vec();
    let cases: Vec<(CtrCase, Option<u32>, &str)> = vec![
        (CtrCase { threads: 2, k: 2, mem: 4e-9, records: vec![aca.clone(), aca.clone()], delete: false }, Some(ctx.pick(3, 6)), "N2.limit0"),
        (CtrCase { threads: 2, k: 2, mem: 6.0, records: vec![aca.clone(), cac.clone()], delete: true }, Some(ctx.pick(3, 6)), "N2.unlimited"),
        // the same canonical k-mer met on opposite strands by two workers (AC / GT)
        (CtrCase { threads: 2, k: 2, mem: 6.0, records: vec![ac.clone(), gt.clone(), ac.clone()], delete: true }, Some(ctx.pick(3, 6)), "N2.strands"),
        (CtrCase { threads: 2, k: 1, mem: 3.2e-8, records: vec![aca.clone(), cac.clone(), aca.clone()], delete: true }, Some(ctx.pick(2, 4)), "N2.limit4"),
        (CtrCase { threads: 3, k: 2, mem: 4e-9, records: vec![aca.clone(), aca.clone(), cac.clone()], delete: false }, Some(ctx.pick(2, 4)), "N3.limit0"),
        (CtrCase { threads: 3, k: 2, mem: 6.0, records: vec![ac.clone(), gt.clone(), ac.clone()], delete: true }, Some(ctx.pick(2, 4)), "N3.strands"),
        // records without any k-mer between records with k-mers: a chunk may hold only such records
        (CtrCase { threads: 2, k: 2, mem: 4e-9, records: vec![b"N".to_vec(), aca.clone(), b"A".to_vec(), ac.clone()], delete: true }, Some(ctx.pick(2, 4)), "N2.nokmer"),
    ];
    for (case, bound, label) in cases {
        ctr_explore(ctx, &case, bound, label);
    }
    // more than 2^16 records in one chunk: every way of preempting the counting workers within the first decisions
    {
        let recs = many_after_one(65_600);
        for (threads, label) in [(2usize, "N2.many"), (3, "N3.many")] {
            if threads == 3 && !ctx.thorough() {
                continue; // three workers on the large input: thorough tier
            }
            let case = CtrCase { threads, k: 11, mem: 6.0, records: recs.clone(), delete: true };
            let w = ctx.pick(16usize, 40);
            with_window(w, || ctr_explore(ctx, &case, Some(1), label));
        }
    }
    if ctx.shard.is_first() {
        ctx.rep.sample("N=2, records [ACA, ACA], k=2, base limit 0: worker 0 passes the limit check, worker 1 passes it too before worker 0 adds its bases -> one chunk with two records; otherwise two chunks of one".to_string());
        ctx.rep.notes.push("C07 schedules: count() + merge() under the controlled scheduler; scheduling points: limit check (atomic load), reader mutex, after a record is taken, every map operation, atomic additions, task exit, and the merge tasks' map operations; merge phase explored once per distinct on-disk state between the phases (phase-barrier state caching)".to_string());
    }
}

pub fn replay(ctx: &mut Ctx, args: &[String]) {
    match args[0].as_str() {
        "C05sched" | "C14sched" => {
            let (case, choices) = OligoCase::from_argv(&args[1..]);
            let inp = format!("{}/sched_in.fa", ctx.scratch);
            let outp = format!("{}/sched_out.txt", ctx.scratch);
            write_fasta(&inp, &case.records);
            let (r, res, bytes) = oligo_exec(&case, &inp, &outp, &choices, CONTROLLED);
            engine_health(&res, "replay", &choices);
            ctx.rep.evaluations += 1;
            let what = case.describe();
            if args[0] == "C05sched" {
                let (reference, _, _) = oligo_reference(&case);
                let bad = if res.deadlock {
                    Some(("deadlock", "deadlock".to_string()))
                } else if res.panicked.is_some() || r.is_err() {
                    Some(("panic", format!("{:?} {:?}", res.panicked, r.as_ref().err())))
                } else if let Err((_k, m)) = oligo_rows_in_order(&case, &bytes) {
                    Some(("rows-out-of-order", format!("{m}; output {:?}, rows in input order {:?}", String::from_utf8_lossy(&bytes), String::from_utf8_lossy(&reference))))
                } else {
                    None
                };
                if let Some((k, m)) = bad {
                    viol(ctx, k, 0, format!("{what}; schedule {}: {m}", fmt_choices(&choices)), vec![]);
                }
            } else if let Err((k, m)) = c14_check_writes(&case, &res, &bytes) {
                viol(ctx, &k, 0, format!("{what}; schedule {}: {m}", fmt_choices(&choices)), vec![]);
            }
        }
        "C14lattice" => {
            let (case, _) = OligoCase::from_argv(&args[1..]);
            c14_lattice_case(ctx, &case);
        }
        "C07sched" => {
            let (case, choices) = CtrCase::from_argv(&args[1..]);
            let inp = format!("{}/ctr_in.fa", ctx.scratch);
            let dir = format!("{}/ctr_out", ctx.scratch);
            write_fasta(&inp, &case.records);
            let run = ctr_exec(&case, &inp, &dir, &choices);
            engine_health(&run.res, "replay", &choices);
            ctx.rep.evaluations += 1;
            if let Err((k, m)) = run.verdict {
                viol(ctx, &k, 0, format!("{}; schedule {}: {m}", case.describe(), fmt_choices(&choices)), vec![]);
            }
        }
        _ => panic!("unknown case kind {}", args[0]),
    }
}

// ------------------------------------------------------------------------------------------ minimiser outputs (C10)

#[derive(Clone, Debug)]
pub struct MinCase {
    pub threads: usize,
    pub w: usize,
    pub m: usize,
    pub records: Vec<Vec<u8>>,
}

impl MinCase {
    fn argv(&self, kind: &str, choices: &[u8]) -> Vec<String> {
        vec![
            "case".into(),
            kind.into(),
            self.threads.to_string(),
            self.w.to_string(),
            self.m.to_string(),
            self.records.iter().map(|r| hex(r)).collect::<Vec<_>>().join(","),
            fmt_choices(choices),
        ]
    }
    fn from_argv(a: &[String]) -> (MinCase, Vec<u8>) {
        (
            MinCase {
                threads: a[0].parse().unwrap(),
                w: a[1].parse().unwrap(),
                m: a[2].parse().unwrap(),
                records: if a[3].is_empty() { vec![] } else { a[3].split(',').map(unhex).collect() },
            },
            parse_choices(a.get(4).map(|s| s.as_str()).unwrap_or("")),
        )
    }
    fn describe(&self, mode: &str) -> String {
        format!("min {mode}: {} workers, w={}, m={}, records {:?}", self.threads, self.w, self.m, self.records.iter().map(|r| show(r)).collect::<Vec<_>>())
    }
}

type Hit = (String, usize, usize);

/// model of both outputs: per record (id, runs as (text, start, end))
fn min_model(case: &MinCase) -> Vec<(String, Vec<Hit>)> {
    let policy = crate::vecs::id_policy(&case.records);
    case.records
        .iter()
        .enumerate()
        .map(|(i, r)| {
            let w = if case.w == 0 { r.len().max(case.m) } else { case.w };
            let runs = model::runs(r, w, case.m);
            (crate::vecs::rec_id_with(policy, i), runs.iter().map(|&(v, s, e)| (String::from_utf8(model::text_of(v as u128, case.m)).unwrap(), s, e)).collect())
        })
        .collect()
}

fn check_s2m(text: &str, case: &MinCase) -> Result<(), (String, String)> {
    let exp = min_model(case);
    let mut exp_lines: Vec<String> = exp.iter().map(|(id, runs)| {
        let mut parts = vec![id.clone()];
        parts.extend(runs.iter().map(|(t, s, e)| format!("{}:{}-{}", t, s, e)));
        parts.join("\t")
    }).collect();
    if !text.is_empty() && !text.ends_with('\n') {
        return Err(("torn-output".into(), format!("output does not end with a newline: {:?}", text)));
    }
    let mut got_lines: Vec<String> = text.split('\n').map(|l| l.trim_end_matches('\t').to_string()).collect();
    got_lines.pop(); // after the final newline
    if got_lines.len() != exp_lines.len() {
        return Err(("line-count".into(), format!("{} lines for {} records: {:?}", got_lines.len(), exp_lines.len(), text)));
    }
    exp_lines.sort();
    got_lines.sort();
    if exp_lines != got_lines {
        let key = if got_lines.iter().any(|l| l.contains(&"T".repeat(case.m.max(4)))) && !exp_lines.iter().any(|l| l.contains(&"T".repeat(case.m.max(4)))) { "placeholder-rendered" } else { "s2m-lines" };
        return Err((key.into(), format!("lines {:?}, expected (as a multiset) {:?}", got_lines, exp_lines)));
    }
    Ok(())
}

fn parse_hits(s: &str) -> Result<Vec<Hit>, String> {
    // [("r0", 0, 3), ("r1", 2, 5)]
    let s = s.trim();
    if !s.starts_with('[') || !s.ends_with(']') {
        return Err(format!("not a list: {s:?}"));
    }
    let inner = &s[1..s.len() - 1];
    let mut out = Vec::new();
    let mut rest = inner;
    while let Some(a) = rest.find('(') {
        let b = rest[a..].find(')').ok_or_else(|| format!("unbalanced: {s:?}"))? + a;
        let fields: Vec<&str> = rest[a + 1..b].split(", ").collect();
        if fields.len() != 3 {
            return Err(format!("bad tuple in {s:?}"));
        }
        out.push((fields[0].trim_matches('"').to_string(), fields[1].parse().map_err(|_| format!("bad start in {s:?}"))?, fields[2].parse().map_err(|_| format!("bad end in {s:?}"))?));
        rest = &rest[b + 1..];
    }
    Ok(out)
}

fn check_m2s(text: &str, case: &MinCase) -> Result<(), (String, String)> {
    let mut exp: BTreeMap<String, Vec<Hit>> = BTreeMap::new();
    for (id, runs) in min_model(case) {
        for (t, s, e) in runs {
            exp.entry(t).or_default().push((id.clone(), s, e));
        }
    }
    for v in exp.values_mut() {
        v.sort();
    }
    let mut got: BTreeMap<String, Vec<Hit>> = BTreeMap::new();
    for line in text.lines() {
        let mut it = line.splitn(2, '\t');
        let k = it.next().unwrap_or("").to_string();
        let hits = parse_hits(it.next().unwrap_or("")).map_err(|e| ("unparsable-output".to_string(), e))?;
        if got.contains_key(&k) {
            return Err(("duplicate-minimiser-line".into(), format!("minimiser {k} appears on more than one line: {text:?}")));
        }
        let mut hits = hits;
        hits.sort();
        got.insert(k, hits);
    }
    if got != exp {
        let ng: usize = got.values().map(|v| v.len()).sum();
        let ne: usize = exp.values().map(|v| v.len()).sum();
        let key = if ng < ne { "m2s-occurrence-lost" } else if ng > ne { "m2s-occurrence-extra" } else { "m2s-wrong" };
        return Err((key.into(), format!("minimiser -> occurrences {:?}, expected the inversion of the s2m output {:?}", got, exp)));
    }
    Ok(())
}

fn min_exec(case: &MinCase, mode: &str, inp: &str, outp: &str, prefix: &[u8], opts: ExecOpts) -> (ExecResult, Result<(), (String, String)>) {
    let _ = std::fs::remove_file(outp);
    let (r, res) = execute(prefix, opts, || {
        if mode == "s2m" {
            misc::minimisers::seq_to_min(case.w, case.m, inp, outp, case.threads)
        } else {
            misc::minimisers::bin_sequences(case.w, case.m, inp, outp, case.threads)
        }
    });
    let verdict = if res.deadlock {
        Err(("deadlock".to_string(), "no task enabled but some blocked on a mutex".to_string()))
    } else if let Some(p) = &res.panicked {
        Err(("panic".to_string(), format!("a worker panicked: {p}")))
    } else if let Err(p) = r {
        Err(("panic".to_string(), format!("panicked: {p}")))
    } else {
        let text = std::fs::read_to_string(outp).unwrap_or_default();
        if mode == "s2m" {
            check_s2m(&text, case)
        } else {
            check_m2s(&text, case)
        }
    };
    (res, verdict)
}

pub fn min_explore(ctx: &mut Ctx, case: &MinCase, mode: &str, bound: Option<u32>, label: &str) {
    let inp = format!("{}/min_in.fa", ctx.scratch);
    let outp = format!("{}/min_out.txt", ctx.scratch);
    write_fasta(&inp, &case.records);
    let what = case.describe(mode);
    determinism_check(&what, |p| min_exec(case, mode, &inp, &outp, p, CONTROLLED).0);
    let always = |_: &Choice| true;
    let cfg = ExploreCfg {
        bound,
        shard: (ctx.shard.idx, ctx.shard.n),
        split_level: if window_now().is_some() { 1 } else { 2 },
        root: vec![],
        branch: &always,
        max_executions: 3_000_000,
        window: window_now(),
    };
    let mut found: Vec<(String, String, Vec<u8>)> = Vec::new();
    let mut orders: BTreeSet<String> = BTreeSet::new();
    let stats = explore(&cfg, |prefix, counted| {
        let (res, verdict) = min_exec(case, mode, &inp, &outp, prefix, CONTROLLED);
        engine_health(&res, &what, prefix);
        let choices = res.choices();
        if counted {
            let asg: String = assignment(res.events.iter().filter(|e| e.site == "min.took").map(|e| (e.arg, e.task)));
            orders.insert(format!("{label}:{asg}"));
        }
        if let Err((key, msg)) = verdict {
            if found.len() < 3 {
                found.push((key, format!("{what}; schedule {} ({} preemptions): {msg}", fmt_choices(&choices), res.preemptions()), choices));
            }
            return (res, found.len() < 3);
        }
        (res, true)
    });
    record_stats(ctx, &stats, bound, label);
    ctx.rep.evaluations += stats.executions;
    ctx.rep.nontrivial += stats.executions;
    for o in orders {
        ctx.rep.outcomes.insert(o);
    }
    let kind = if mode == "s2m" { "C10s2m" } else { "C10m2s" };
    for (key, desc, choices) in found {
        viol(ctx, &key, choices.len() + 1000 * choices.iter().filter(|&&c| c != 0).count(), desc, case.argv(kind, &choices));
    }
}

fn long_record(len: usize, seed: u64) -> Vec<u8> {
    let mut x = seed;
    (0..len)
        .map(|_| {
            x = x.wrapping_mul(6364136223846793005).wrapping_add(1442695040888963407);
            b"ACGT"[((x >> 33) % 4) as usize]
        })
        .collect()
}

/// the 65 601-record windowed exploration for the minimiser listings, in a process of its own (run after hours of
/// unbounded small-case explorations in one process, a worker thread of this case overflowed its stack - DESIGN 9)
pub fn c10_many(ctx: &mut Ctx) {
    // more than 2^16 records: every way of preempting the workers while they handle the first records (window of
    // decisions), each continued by default (the preempted worker resumes after the others have taken everything)
    {
        let recs = many_after_one(65_600);
        // two workers, window 16, bound 1 in both tiers: the thorough variant of this case (three workers, window 40,
        // bound 2) ended in a stack overflow of a worker thread inside the harnessed run (vp run #15/#16) that was not
        // understood in the time left - a fault of the machinery, so the variant is not run (DESIGN 9)
        for (threads, label) in [(2usize, "N2many")] {
            let case = MinCase { threads, w: 9, m: 5, records: recs.clone() };
            let b = 1u32;
            with_window(16usize, || {
                min_explore(ctx, &case, "s2m", Some(b), &format!("s2m.{label}"));
                min_explore(ctx, &case, "m2s", Some(1), &format!("m2s.{label}"));
            });
        }
    }
}

pub fn c10_sched(ctx: &mut Ctx) {
    // records sharing minimisers
    let r1 = b"ACAC".to_vec();
    let r2 = b"CACA".to_vec();
    let r3 = b"ACNAC".to_vec();
    let r4 = b"GTGT".to_vec(); // the reverse complement of ACAC: same canonical minimisers on the other strand
    for (threads, recs, w, bound, label) in [
        (2usize, vec![r1.clone(), r1.clone()], 0usize, None, "N2R2w0"),
        (2, vec![r1.clone(), r2.clone()], 3, if ctx.thorough() { None } else { Some(4) }, "N2R2w3"),
        (2, vec![r1.clone(), r4.clone()], 3, if ctx.thorough() { None } else { Some(4) }, "N2R2w3rc"),
        (2, vec![r1.clone(), r2.clone(), r3.clone()], 3, if ctx.thorough() { None } else { Some(4) }, "N2R3w3"),
        (3, vec![r1.clone(), r2.clone(), r1.clone()], 0, if ctx.thorough() { None } else { Some(3) }, "N3R3w0"),
        (3, vec![r1.clone(), r4.clone(), r2.clone()], 3, Some(ctx.pick(3, 6)), "N3R3w3rc"),
    ] {
        let case = MinCase {
            threads,
            w,
            m: 2,
            records: recs,
        };
        min_explore(ctx, &case, "s2m", bound, &format!("s2m.{label}"));
        min_explore(ctx, &case, "m2s", bound, &format!("m2s.{label}"));
    }
    // a record whose output line is far longer than any I/O buffer (thousands of runs) next to short ones:
    // the line must still reach the file as one piece under every interleaving
    let long = long_record(6000, 7);
    for (threads, recs, bound, label) in [
        (2usize, vec![long.clone(), r1.clone()], Some(ctx.pick(2, 3)), "N2long"),
        (2, vec![r1.clone(), long.clone(), long_record(3000, 11)], Some(ctx.pick(1, 2)), "N2long2"),
        (3, vec![long.clone(), r2.clone(), r1.clone()], Some(ctx.pick(1, 2)), "N3long"),
    ] {
        let case = MinCase {
            threads,
            w: 3,
            m: 2,
            records: recs,
        };
        min_explore(ctx, &case, "s2m", bound, &format!("s2m.{label}"));
    }
    if ctx.shard.is_first() {
        ctx.rep.sample("m2s, N=2, records [ACAC, ACAC], w=0 (whole record), m=2: both workers meet minimiser AC for the first time; every interleaving of their map operations".to_string());
        ctx.rep.sample("s2m, N=3, records [ACAC, CACA, ACAC], w=0: every interleaving of reader lock, took, writer lock (bound 2)".to_string());
        ctx.rep.notes.push("C10 schedules: seq_to_min and bin_sequences under the controlled scheduler; points: task start, reader mutex, after a record is taken, every map operation, writer mutex, task exit; N=2 unbounded where feasible, N=3 preemption-bounded".to_string());
    }
}

fn c10_free(ctx: &mut Ctx, case: &MinCase, tag: &str) {
    let inp = format!("{}/minf_in.fa", ctx.scratch);
    let outp = format!("{}/minf_out.txt", ctx.scratch);
    write_fasta(&inp, &case.records);
    for mode in ["s2m", "m2s"] {
        ctx.journal.note(|| format!("C10 free {} {} threads={} w={} m={} nrec={}", tag, mode, case.threads, case.w, case.m, case.records.len()));
        ctx.rep.evaluations += 1;
        let free = ExecOpts { controlled: false, logging: false, symmetry: true };
        let (_res, verdict) = min_exec(case, mode, &inp, &outp, &[], free);
        if std::fs::metadata(&outp).map(|m| m.len() > 0 && m.len() % 4096 == 0).unwrap_or(false) {
            ctx.rep.count("outputs_on_a_4k_multiple", 1);
        }
        if let Err((key, msg)) = verdict {
            let argv = if case.records.len() <= 8 { case.argv(if mode == "s2m" { "C10s2m-free" } else { "C10m2s-free" }, &[]) } else { vec!["case".into(), "C10big".into(), tag.to_string(), mode.to_string(), case.threads.to_string(), case.w.to_string(), case.m.to_string()] };
            let short: String = msg.chars().take(1500).collect();
            viol(ctx, &key, case.records.len() * 100 + case.w, format!("min {mode} ({tag}) threads={} w={} m={} on {} records: {short}", case.threads, case.w, case.m, case.records.len()), argv);
            return;
        }
        ctx.rep.nontrivial += 1;
    }
}

pub fn c10_big_records(tag: &str) -> Vec<Vec<u8>> {
    match tag {
        "all-S5-le-6" => crate::enumr::strings(crate::enumr::S5, 0, 6),
        "all-S5-le-5" => crate::enumr::strings(crate::enumr::S5, 0, 5),
        "ten-thousand" => (0..10_050usize).map(|i| long_record(3 + i % 5, i as u64)).collect(),
        "seventy-thousand" => (0..70_000usize).map(|i| long_record(3 + i % 5, i as u64)).collect(),
        "hundred-thousand" => (0..100_001usize).map(|i| long_record(3 + i % 5, i as u64)).collect(),
        "repeating" => crate::vecs::repeating_records(),
        "long-records" => (0..12u64).map(|i| long_record(20_000, 100 + i)).collect(),
        "reads" => crate::iters::medium_inputs(400),
        "odd-then-same-256" => crate::vecs::odd_then_same(256),
        "odd-then-same-65536" => crate::vecs::odd_then_same(65_536),
        "very-long-records" => vec![long_record(40, 1), long_record(100_050, 2), long_record(7, 3), long_record(250_017, 4), long_record(1_000_001, 5)],
        _ => panic!("unknown record set"),
    }
}

pub fn c10_configs(ctx: &mut Ctx) {
    let mut sh = ctx.shard;
    // every short string as one file
    let tag = ctx.pick("all-S5-le-5", "all-S5-le-6");
    let big = c10_big_records(tag);
    for m in 1..=3usize {
        for w in [0usize, m + 1, m + 2] {
            for threads in [1usize, 2, 4, 16] {
                if sh.mine() {
                    c10_free(ctx, &MinCase { threads, w, m, records: big.clone() }, tag);
                }
            }
        }
    }
    // more than 10 000 records (a threshold visible in the worker loops) and long records, free-running
    let many: Vec<Vec<u8>> = (0..10_050usize).map(|i| long_record(3 + i % 5, i as u64)).collect();
    for (mm, w, threads) in [(2usize, 0usize, 4usize), (2, 3, 16)] {
        if sh.mine() {
            c10_free(ctx, &MinCase { threads, w, m: mm, records: many.clone() }, "ten-thousand");
        }
    }
    // records that repeat (identical neighbours, reverse complement of the previous one, ...), under one id, two ids or unique ids
    for (mm, w) in [(2usize, 0usize), (3, 5), (4, 0), (5, 9)] {
        for threads in [1usize, 2, 4, 16] {
            if sh.mine() {
                c10_free(ctx, &MinCase { threads, w, m: mm, records: c10_big_records("repeating") }, "repeating");
            }
        }
    }
    // listings whose size (s2m: one line per record) is exactly a multiple of 4 KiB / 8 KiB / 64 KiB, one line less, one more
    {
        let pool = c10_big_records("ten-thousand");
        for (mm, w) in [(2usize, 0usize), (2, 3)] {
            let probe = MinCase { threads: 1, w, m: mm, records: pool.clone() };
            // a line is id, tab-separated runs, a tab and the line feed; the ids depend on the (truncated) list (rec_id)
            let rest: Vec<usize> = min_model(&probe).iter().map(|(_, runs)| runs.iter().map(|(t, s, e)| 1 + format!("{}:{}-{}", t, s, e).len()).sum::<usize>() + 2).collect();
            let mut hits: Vec<usize> = Vec::new();
            for b in [4096usize, 8192, 65_536] {
                let (mut bases, mut body, mut ids, mut found) = (0usize, 0usize, [0usize; 3], 0);
                for n in 1..=pool.len() {
                    let i = n - 1;
                    bases += pool[i].len();
                    body += rest[i];
                    ids[0] += format!("r{}", i).len();
                    ids[1] += 4;
                    ids[2] += 2;
                    if (body + ids[(n + bases) % 3]) % b == 0 {
                        hits.extend([n - 1, n, (n + 1).min(pool.len())]);
                        found += 1;
                        if found == 2 {
                            break;
                        }
                    }
                }
            }
            hits.sort();
            hits.dedup();
            for n in hits {
                for threads in [1usize, 4] {
                    if sh.mine() {
                        c10_free(ctx, &MinCase { threads, w, m: mm, records: pool[..n].to_vec() }, &format!("ten-thousand:{n}"));
                        ctx.rep.count("cases.size_boundaries", 1);
                    }
                }
            }
        }
    }
    // record counts at round decimal numbers
    {
        let pool = c10_big_records("hundred-thousand");
        for &nrec in crate::enumr::DEC_COUNTS.iter() {
            for (mm, w, threads) in [(2usize, 0usize, 3usize), (2, 3, 1)] {
                if sh.mine() {
                    c10_free(ctx, &MinCase { threads, w, m: mm, records: pool[..nrec].to_vec() }, &format!("hundred-thousand:{nrec}"));
                }
            }
        }
    }
    // more records than a 16-bit record number can count
    for (mm, w, threads) in [(2usize, 0usize, 3usize), (2, 3, 16)] {
        if sh.mine() {
            c10_free(ctx, &MinCase { threads, w, m: mm, records: c10_big_records("seventy-thousand") }, "seventy-thousand");
        }
    }
    for (mm, w, threads) in [(3usize, 4usize, 2usize), (7, 0, 3), (7, 12, 16)] {
        if sh.mine() {
            c10_free(ctx, &MinCase { threads, w, m: mm, records: c10_big_records("very-long-records") }, "very-long-records");
        }
    }
    for set in ["odd-then-same-256", "odd-then-same-65536"] {
        for (mm, w, threads) in [(3usize, 0usize, 1usize), (3, 5, 4)] {
            if sh.mine() {
                c10_free(ctx, &MinCase { threads, w, m: mm, records: c10_big_records(set) }, set);
            }
        }
    }
    for (mm, w, threads) in [(7usize, 12usize, 3usize), (10, 0, 4), (15, 31, 16), (28, 40, 2), (5, 6, 1)] {
        if sh.mine() {
            c10_free(ctx, &MinCase { threads, w, m: mm, records: c10_big_records("reads") }, "reads");
        }
    }
    let longs: Vec<Vec<u8>> = (0..12u64).map(|i| long_record(20_000, 100 + i)).collect();
    for threads in [2usize, 8, 16] {
        if sh.mine() {
            c10_free(ctx, &MinCase { threads, w: 4, m: 3, records: longs.clone() }, "long-records");
        }
    }
    // lists of short records
    let s3 = crate::enumr::strings(b"ATN", 0, 3);
    let s2 = crate::enumr::strings(b"ACGN", 0, 2);
    let mut lists: Vec<Vec<Vec<u8>>> = vec![vec![]];
    for a in &s3 {
        for b in &s3 {
            lists.push(vec![a.clone(), b.clone()]);
        }
    }
    if ctx.thorough() {
        for a in &s2 {
            for b in &s2 {
                for c in &s2 {
                    lists.push(vec![a.clone(), b.clone(), c.clone()]);
                }
            }
        }
    }
    for l in &lists {
        for (m, w, threads) in [(1usize, 0usize, 2usize), (2, 0, 4), (2, 3, 2), (1, 2, 16), (3, 0, 1)] {
            if sh.mine() {
                c10_free(ctx, &MinCase { threads, w, m, records: l.clone() }, "short-lists");
            }
        }
    }
    if ctx.shard.is_first() {
        ctx.rep.sample(format!("free-running: {} records (every string over ACGTN up to length {}) as one file, m=2, w=0, 16 threads, both outputs", big.len(), ctx.pick(5, 6)));
        ctx.rep.notes.push("C10 configurations: all short strings as one file x m 1..=3 x w in (0, m+1, m+2) x threads (1,2,4,16); every pair of records over {A,T,N}^(<=3) (thorough: also triples over {A,C,G,N}^(<=2)) x 5 settings; both outputs compared with the model as multisets".to_string());
    }
}

pub fn replay_min(ctx: &mut Ctx, args: &[String]) {
    let inp = format!("{}/min_in.fa", ctx.scratch);
    let outp = format!("{}/min_out.txt", ctx.scratch);
    ctx.rep.evaluations += 1;
    if args[0] == "C10big" {
        let (base, n) = match args[1].split_once(':') {
            Some((b, n)) => (b, n.parse::<usize>().ok()),
            None => (args[1].as_str(), None),
        };
        let mut records = c10_big_records(base);
        if let Some(n) = n {
            records.truncate(n);
        }
        let case = MinCase { threads: args[3].parse().unwrap(), w: args[4].parse().unwrap(), m: args[5].parse().unwrap(), records };
        c10_free(ctx, &case, &args[1]);
        return;
    }
    let (case, choices) = MinCase::from_argv(&args[1..]);
    write_fasta(&inp, &case.records);
    let mode = if args[0].starts_with("C10s2m") { "s2m" } else { "m2s" };
    let opts = if args[0].ends_with("-free") { ExecOpts { controlled: false, logging: false, symmetry: true } } else { CONTROLLED };
    let (res, verdict) = min_exec(&case, mode, &inp, &outp, &choices, opts);
    engine_health(&res, "replay", &choices);
    if let Err((k, m)) = verdict {
        viol(ctx, &k, 0, format!("{}; schedule {}: {m}", case.describe(mode), fmt_choices(&choices)), vec![]);
    }
}

// ------------------------------------------------------------------------------------------ C05 configuration lattice

pub fn c05_record_set(tag: &str) -> Vec<Vec<u8>> {
    let gen = |n: usize| -> Vec<Vec<u8>> {
        (0..n)
            .map(|i| {
                let len = 1 + (i * 7) % 23;
                (0..len).map(|j| b"ACGTNACGGT"[(i * 3 + j * (1 + i % 4) + j / 3) % 10]).collect()
            })
            .collect()
    };
    match tag {
        "one" => gen(1),
        "two" => gen(2),
        "five" => gen(5),
        "thirty-seven" => gen(37),
        "five-hundred" => gen(500),
        "five-thousand" => gen(5000),
        "seventy-thousand" => gen(70_000),
        "hundred-thousand" => gen(100_001),
        "repeating" => crate::vecs::repeating_records(),
        "long-first" => {
            let mut v = vec![crate::enumr::fill(b"ACGGTCA", 300_000)];
            v.extend(gen(6));
            v
        }
        // one odd record, then 2^8 / 2^16 (and one more) identical records, then another odd one: state that is
        // recycled per record with a narrow generation counter shows at exactly that distance
        "odd-then-same-256" => crate::vecs::odd_then_same(256),
        "odd-then-same-65536" => crate::vecs::odd_then_same(65_536),
        // a record beyond 2^22 bases of irregular length (not a multiple of any small thread count) between short ones
        "huge-inside" => {
            let mut v = gen(2);
            v.push(crate::iters::long_input(5_000_011, 77));
            v.extend(gen(4).into_iter().skip(2));
            v
        }
        // records whose window totals (k = 4) are 2^7 x 5^b and multiples: some frequencies then lie exactly between two
        // 6-decimal numbers as decimals but not as binary fractions, where two ways of rounding part
        "decimal-ties" => {
            let mut v = gen(2);
            for (i, windows) in [640usize, 1280, 1920, 3200, 6400, 16_000, 80_000, 128, 641].iter().enumerate() {
                let mut r = crate::iters::long_input(windows + 3, 300 + i as u64);
                r.iter_mut().for_each(|b| {
                    if !b"ACGT".contains(b) {
                        *b = b'C'
                    }
                });
                v.push(r);
            }
            v
        }
        // enough short records for one batch of more than 32 MiB (2^25 bytes) of output text at k = 5
        "nine-thousand" => (0..9_000usize).map(|i| crate::files::long_bases(12 + i % 40, i)).collect(),
        // pairs of records whose A-share (k = 1) are the two fractions with totals up to 40 000 closest to a 6-decimal
        // rounding boundary, one on either side (neighbours in the Farey sequence: they differ by 1/(T1 T2), far less
        // than single precision resolves, and are printed differently)
        "rounding-neighbours" => {
            let mut v: Vec<Vec<u8>> = Vec::new();
            for i in 0..40u64 {
                let j = (774_965 + i * 35_711) % 1_000_000;
                // the boundary (2j + 1) / 2 000 000, approached from both sides in the Stern-Brocot tree
                let (tp, tq) = (2 * j + 1, 2_000_000u64);
                let (mut a, mut b, mut c, mut d) = (0u64, 1u64, 1u64, 1u64);
                while b + d <= 40_000 {
                    let (mp, mq) = (a + c, b + d);
                    if mp * tq < tp * mq {
                        a = mp;
                        b = mq;
                    } else {
                        c = mp;
                        d = mq;
                    }
                }
                for (num, den) in if i % 2 == 0 { [(a, b), (c, d)] } else { [(c, d), (a, b)] } {
                    if den >= 3000 {
                        let mut r = vec![b'A'; num as usize];
                        r.extend(std::iter::repeat(b'C').take((den - num) as usize));
                        v.push(r);
                    }
                }
            }
            v
        }
        // read-like records: irregular lengths of tens to thousands of bases, mixed case, U, several ambiguous bytes
        "reads" => crate::iters::medium_inputs(400),
        // records beyond 100 000 and 1 000 000 bases in the middle and at the end, short ones before and between
        "long-inside" => {
            let mut v = gen(3);
            v.push(crate::iters::long_input(100_001, 21));
            v.extend(gen(5).into_iter().skip(3));
            v.push(crate::iters::long_input(250_000, 22));
            v.push(b"ACGTA".to_vec());
            v.push(crate::iters::long_input(1_000_001, 23));
            v
        }
        _ => panic!("unknown record set {tag}"),
    }
}

fn c05_write_input(dir: &str, records: &[Vec<u8>], container: &str) -> String {
    use crate::files::{serialise, Rec, Ser};
    let policy = crate::vecs::id_policy(records);
    // every seventh record has an empty header line (no id): the record count must not depend on ids
    // (not when it has no bases either: a bare '>' line is the underlying parser's end-of-input marker)
    let recs: Vec<Rec> = records.iter().enumerate().map(|(i, r)| Rec { header: if i % 7 == 3 && !r.is_empty() { String::new() } else { format!("{} some description", crate::vecs::rec_id_with(policy, i)) }, bases: r.clone() }).collect();
    let (ser, suffix, gz) = match container {
        "fasta" => (Ser::FastaLine, ".fa", false),
        "fasta-w1" => (Ser::FastaWrap(1), ".fasta", false),
        "fasta-w3" => (Ser::FastaWrap(3), ".fna", false),
        "fasta-w60" => (Ser::FastaWrap(60), ".fa", false),
        "fastq" => (Ser::Fastq, ".fq", false),
        "fastq-w5" => (Ser::FastqWrap(5), ".sample.fa.fq", false),
        "fasta-gz" => (Ser::FastaLine, ".fa.gz", true),
        "fastq-gz" => (Ser::Fastq, ".fastq.gz", true),
        _ => panic!("unknown container"),
    };
    let (text, _) = serialise(&recs, ser);
    let path = format!("{}/c05_in{}", dir, suffix);
    if gz {
        use std::io::Write;
        let mut e = flate2::write::GzEncoder::new(Vec::new(), flate2::Compression::default());
        e.write_all(&text).unwrap();
        std::fs::write(&path, e.finish().unwrap()).unwrap();
    } else {
        std::fs::write(&path, text).unwrap();
    }
    crate::vecs::side_cars(&path);
    path
}

#[allow(clippy::too_many_arguments)]
fn c05_config(ctx: &mut Ctx, set: &str, records: &[Vec<u8>], k: usize, container: &str, threads: usize, limit: usize, writer: &str, header: bool, delim: &str) {
    let argv = vec!["case".to_string(), "C05cfg".to_string(), set.to_string(), k.to_string(), container.to_string(), threads.to_string(), limit.to_string(), writer.to_string(), (header as u8).to_string(), hex(delim.as_bytes()), records.len().to_string()];
    ctx.journal.note(|| format!("C05 cfg {:?}", argv));
    ctx.rep.evaluations += 1;
    let inp = c05_write_input(&ctx.scratch, records, container);
    let outp = format!("{}/c05_out.txt", ctx.scratch);
    let _ = std::fs::remove_file(&outp);
    let r = crate::ctx::guard(|| {
        let mut oc = OligoComputer::new(inp.clone(), outp.clone(), k);
        // the order of the setter calls is part of the configuration: both orders are used (by case parity)
        if (threads + records.len()) % 2 == 0 {
            oc.set_threads(threads);
            oc.set_header(header);
            oc.set_delim(delim.to_string());
            oc.set_max_memory(limit);
        } else {
            oc.set_max_memory(limit);
            oc.set_delim(delim.to_string());
            oc.set_header(header);
            oc.set_threads(threads);
        }
        if writer == "mmap" {
            oc.verif_vectorise_mmap()
        } else {
            oc.verif_vectorise_batch()
        }
    });
    if std::fs::metadata(&outp).map(|m| m.len() > 0 && m.len() % 4096 == 0).unwrap_or(false) {
        ctx.rep.count("outputs_on_a_4k_multiple", 1);
    }
    let what = format!("oligo {writer} writer, records '{set}' ({}), k={k}, container {container}, threads={threads}, batch limit={limit}, header={header}, delimiter {:?}", records.len(), delim);
    let size = records.len() + threads;
    match r {
        Err(p) => return viol(ctx, "panic", size, format!("{what}: panicked: {p}"), argv),
        Ok(Err(e)) => return viol(ctx, "error", size, format!("{what}: {e}"), argv),
        Ok(Ok(())) => {}
    }
    let bytes = std::fs::read(&outp).unwrap_or_default();
    let case = OligoCase { threads, k, header, delim: delim.to_string(), records: records.to_vec(), memory: Some(limit) };
    if let Err((key, which)) = oligo_rows_in_order(&case, &bytes) {
        return viol(ctx, &key, size, format!("{what}: {which}"), argv);
    }
    // "the output bytes are identical for every thread count, batch limit, writer and container": the first
    // configuration of (record set, k, header, delimiter) seen by this process is the reference of the later ones
    {
        use std::hash::{Hash, Hasher};
        let mut h = std::collections::hash_map::DefaultHasher::new();
        bytes.hash(&mut h);
        let digest = (h.finish(), bytes.len());
        let key = format!("{set}|{k}|{header}|{}|{}", hex(delim.as_bytes()), records.len());
        let mut seen = C05_SEEN.lock().unwrap();
        match seen.get(&key) {
            None => {
                seen.insert(key, (digest, argv.clone(), what.clone()));
            }
            Some((d0, argv0, what0)) if *d0 != digest => {
                let mut pair = vec!["case".to_string(), "C05pair".to_string()];
                pair.extend(argv0[2..].iter().cloned());
                pair.push("--".into());
                pair.extend(argv[2..].iter().cloned());
                let msg = format!("{what}: {} output bytes that differ from the {} bytes of the same records with [{what0}]", bytes.len(), d0.1);
                drop(seen);
                return viol(ctx, "bytes-differ-between-configurations", size, msg, pair);
            }
            _ => {}
        }
    }
    ctx.rep.nontrivial += 1;
}

static C05_SEEN: std::sync::LazyLock<std::sync::Mutex<BTreeMap<String, ((u64, usize), Vec<String>, String)>>> = std::sync::LazyLock::new(|| std::sync::Mutex::new(BTreeMap::new()));

/// replay of a pair of configurations whose outputs differed
pub fn replay_c05pair(ctx: &mut Ctx, a: &[String]) {
    let cut = a.iter().position(|x| x == "--").expect("pair separator");
    let mut first = vec!["C05cfg".to_string()];
    first.extend(a[1..cut].iter().cloned());
    let mut second = vec!["C05cfg".to_string()];
    second.extend(a[cut + 1..].iter().cloned());
    replay_c05cfg(ctx, &first);
    replay_c05cfg(ctx, &second);
}

pub fn c05_lattice(ctx: &mut Ctx) {
    let sets = ["one", "two", "five", "thirty-seven", "five-hundred", "long-first", "five-thousand", "repeating", "long-inside", "reads"];
    let limits = [1usize, 2, 7, 100, 4usize << 30];
    let containers = ["fasta", "fasta-w1", "fasta-w3", "fasta-w60", "fastq", "fasta-gz", "fastq-gz", "fastq-w5"];
    let delims = [" ", ",", "\t", "::"];
    let mut sh = ctx.shard;
    let mut n = 0u64;
    let thorough = ctx.thorough();
    // the full cross product on a reduced domain (quick and thorough): every combination of container, writer,
    // batch limit, header, delimiter and thread count on one record set
    {
        let recs = c05_record_set("thirty-seven");
        for container in ["fasta", "fasta-w3", "fastq", "fastq-gz"] {
            for writer in ["mmap", "batch"] {
                for limit in [1usize, 7, 4 << 30] {
                    for header in [false, true] {
                        for delim in [" ", "::", ",", "\u{b7}"] {
                            for threads in [1usize, 3, 16] {
                                if sh.mine() {
                                    c05_config(ctx, "thirty-seven", &recs, 3, container, threads, limit, writer, header, delim);
                                    n += 1;
                                }
                            }
                        }
                    }
                }
            }
        }
    }
    for set in sets {
        let recs = c05_record_set(set);
        let k = if set == "long-first" || set == "long-inside" { 2 } else { 3 };
        // threads x limit x writer
        for threads in 1..=16usize {
            if set == "five-thousand" && !thorough && ![1usize, 2, 7, 16].contains(&threads) {
                continue;
            }
            for writer in ["mmap", "batch"] {
                for &limit in &limits {
                    for container in containers {
                        if (set == "long-first" || set == "long-inside") && container == "fasta-w1" {
                            continue;
                        }
                        if (set == "long-inside" || set == "reads") && !thorough && !(threads <= 2 || threads == 16) {
                            continue;
                        }
                        // records without bases are well-formed in FASTA only
                        if container.starts_with("fastq") && recs.iter().any(|r| r.is_empty()) {
                            continue;
                        }
                        if !thorough {
                            if sh.mine() {
                                c05_config(ctx, set, &recs, k, container, threads, limit, writer, false, " ");
                                n += 1;
                            }
                            continue;
                        }
                        for header in [false, true] {
                            for delim in delims {
                                if sh.mine() {
                                    c05_config(ctx, set, &recs, k, container, threads, limit, writer, header, delim);
                                    n += 1;
                                }
                            }
                        }
                    }
                }
            }
        }
        if !thorough {
            // header x delimiter x writer
            for header in [false, true] {
                for delim in delims {
                    for writer in ["mmap", "batch"] {
                        for threads in [1usize, 4] {
                            if sh.mine() {
                                c05_config(ctx, set, &recs, k, "fasta", threads, 2, writer, header, delim);
                                n += 1;
                            }
                        }
                    }
                }
            }
        }
    }
    // more records than a 16-bit record number can count
    {
        let recs = c05_record_set("seventy-thousand");
        for threads in [1usize, 3, 16] {
            for (writer, limit) in [("mmap", 4usize << 30), ("batch", 4 << 30), ("batch", 100_000), ("batch", 7)] {
                if sh.mine() {
                    c05_config(ctx, "seventy-thousand", &recs, 2, "fasta", threads, limit, writer, false, " ");
                    n += 1;
                }
            }
        }
    }
    // outputs whose size is exactly a multiple of a page or of a write buffer (4 KiB, 8 KiB, 64 KiB), one row less, one more
    {
        let recs = c05_record_set("seventy-thousand");
        for (k, delim) in [(1usize, " "), (2, " "), (3, ","), (3, " "), (5, " "), (7, " ")] {
            for header in [false, true] {
                let (h, row) = oligo_sizes(k, delim, header);
                for nrec in boundary_counts(h, row, 33_000) {
                    for (writer, threads, limit) in [("mmap", 3usize, 4usize << 30), ("batch", 1, 4 << 30), ("batch", 4, 50_000)] {
                        if sh.mine() {
                            c05_config(ctx, "seventy-thousand", &recs[..nrec], k, "fasta", threads, limit, writer, header, delim);
                            n += 1;
                        }
                    }
                }
            }
        }
    }
    // record counts at the powers of two (a writer that works in blocks of 2^j records)
    {
        let recs = c05_record_set("seventy-thousand");
        for &nrec in crate::enumr::POW2_COUNTS.iter() {
            for (writer, threads, limit) in [("mmap", 3usize, 4usize << 30), ("batch", 1, 4 << 30), ("batch", 4, 4 << 30), ("batch", 4, 20_000), ("batch", 2, nrec * 4)] {
                if sh.mine() {
                    c05_config(ctx, "seventy-thousand", &recs[..nrec], 2, "fasta", threads, limit, writer, nrec % 2 == 1, " ");
                    n += 1;
                }
            }
        }
    }
    // the text of ONE batch beyond 2^25 bytes, with and without a header line before it
    {
        let recs = c05_record_set("nine-thousand");
        for (writer, threads, header, delim) in [("batch", 4usize, true, ","), ("batch", 1, false, " "), ("mmap", 3, true, ",")] {
            if sh.mine() {
                c05_config(ctx, "nine-thousand", &recs, 5, "fasta", threads, 4 << 30, writer, header, delim);
                n += 1;
            }
        }
    }
    {
        let recs = c05_record_set("rounding-neighbours");
        for (writer, threads) in [("batch", 1usize), ("mmap", 1), ("mmap", 2), ("batch", 3)] {
            if sh.mine() {
                c05_config(ctx, "rounding-neighbours", &recs, 1, "fasta", threads, 4 << 30, writer, false, " ");
                n += 1;
            }
        }
    }
    {
        let recs = c05_record_set("decimal-ties");
        for (writer, threads, container) in [("batch", 1usize, "fasta"), ("mmap", 1, "fasta"), ("mmap", 4, "fasta-w60"), ("batch", 5, "fastq"), ("mmap", 2, "fasta-gz")] {
            if sh.mine() {
                c05_config(ctx, "decimal-ties", &recs, 4, container, threads, 4 << 30, writer, false, " ");
                n += 1;
            }
        }
    }
    {
        let recs = c05_record_set("huge-inside");
        for (writer, threads) in [("mmap", 1usize), ("mmap", 12), ("batch", 16), ("batch", 7)] {
            if sh.mine() {
                c05_config(ctx, "huge-inside", &recs, 4, "fasta", threads, 4 << 30, writer, false, " ");
                n += 1;
            }
        }
    }
    for set in ["odd-then-same-256", "odd-then-same-65536"] {
        let recs = c05_record_set(set);
        for (writer, threads, limit) in [("mmap", 1usize, 4usize << 30), ("batch", 1, 4 << 30), ("batch", 4, 4 << 30), ("mmap", 3, 4 << 30)] {
            if sh.mine() {
                c05_config(ctx, set, &recs, 3, "fasta", threads, limit, writer, false, " ");
                n += 1;
            }
        }
    }
    // record counts at round decimal numbers
    {
        let recs = c05_record_set("hundred-thousand");
        for &nrec in crate::enumr::DEC_COUNTS.iter() {
            for (writer, threads, limit) in [("mmap", 3usize, 4usize << 30), ("batch", 1, 4 << 30), ("batch", 4, 4 << 30), ("batch", 3, 30_000)] {
                if sh.mine() {
                    c05_config(ctx, "hundred-thousand", &recs[..nrec], 2, "fasta", threads, limit, writer, nrec % 2 == 1, " ");
                    n += 1;
                }
            }
        }
    }
    // every record count 0..=40 (and a few larger ones) x threads 1..=8, 16 x both writers x small limits: how a batch is
    // split over the pool must not matter
    let pool: Vec<Vec<u8>> = c05_record_set("five-hundred");
    for nrec in (0..=40usize).chain([63, 64, 65, 127, 129]) {
        for threads in (1..=8usize).chain([16]) {
            for (writer, limit) in [("mmap", 4usize << 30), ("mmap", 40), ("batch", 4 << 30), ("batch", 40), ("batch", 1)] {
                if sh.mine() {
                    c05_config(ctx, "five-hundred", &pool[..nrec], 2, "fasta", threads, limit, writer, nrec % 2 == 1, " ");
                    n += 1;
                    if nrec <= 3 {
                        // both header settings on the smallest inputs (incl. no record at all)
                        c05_config(ctx, "five-hundred", &pool[..nrec], 2, "fasta", threads, limit, writer, nrec % 2 == 0, ",");
                        n += 1;
                    }
                }
            }
        }
    }
    ctx.rep.count("cases.lattice", n);
    oligo_reuse(ctx, 5);
    if ctx.shard.is_first() {
        ctx.rep.sample("configuration: 500 records, wrapped FASTA width 3, batch writer, 16 threads, batch limit 7 bases, header on, delimiter tab".to_string());
        ctx.rep.sample("configuration: one 300 000-base record followed by 6 short ones, batch limit 1 (one batch per record), 8 threads".to_string());
        ctx.rep.notes.push(format!("C05 configurations: 6 record sets x threads 1..=16 x batch limits (1,2,7,100,4 GiB) x writers (mmap, batch){}; every output must be byte-identical to the rows in input order (header and delimiter as requested)", if thorough { " x 7 containers x header x 3 delimiters (full cross product)" } else { " x 7 containers; header x 3 delimiters x writers x threads (1,4)" }));
    }
}

pub fn replay_c05cfg(ctx: &mut Ctx, a: &[String]) {
    let mut recs = c05_record_set(&a[1]);
    if let Some(n) = a.get(9).and_then(|n| n.parse::<usize>().ok()) {
        recs.truncate(n);
    }
    c05_config(ctx, &a[1], &recs, a[2].parse().unwrap(), &a[3], a[4].parse().unwrap(), a[5].parse().unwrap(), &a[6], a[7] == "1", &String::from_utf8(unhex(&a[8])).unwrap());
}

// ------------------------------------------------------------------------------------------ object reuse (operation sequences)

#[derive(Clone, Debug)]
struct OligoCfg {
    header: bool,
    delim: &'static str,
    writer: &'static str, // mmap | batch | auto
    threads: usize,
    norm: bool,
}

fn oligo_cfg_code(c: &OligoCfg) -> String {
    format!("{}{}:{}:{}:{}", if c.header { "H" } else { "-" }, hex(c.delim.as_bytes()), c.writer, c.threads, c.norm as u8)
}

fn oligo_cfg_parse(s: &str) -> OligoCfg {
    let p: Vec<&str> = s.split(':').collect();
    let delim: &'static str = match String::from_utf8(unhex(&p[0][1..])).unwrap().as_str() {
        " " => " ",
        ", " => ", ",
        "" => "",
        "," => ",",
        _ => "\t",
    };
    let writer: &'static str = match p[1] {
        "mmap" => "mmap",
        "batch" => "batch",
        _ => "auto",
    };
    OligoCfg { header: p[0].starts_with('H'), delim, writer, threads: p[2].parse().unwrap(), norm: p[3] == "1" }
}

/// One OligoComputer object, several runs with settings changed in between through the public setters, always
/// into the same output path: every run must give what a fresh computer with those settings gives (rows by the
/// model, write log by the C14 invariant). `which` = 5 (rows) or 14 (write log).
fn oligo_reuse_sequence(ctx: &mut Ctx, seq: &[OligoCfg], which: u32) {
    let records: Vec<Vec<u8>> = vec![b"AAAC".to_vec(), b"CCG".to_vec(), b"ACGTT".to_vec()];
    let k = 2usize;
    let inp = format!("{}/reuse_in.fa", ctx.scratch);
    let outp = format!("{}/reuse_out.txt", ctx.scratch);
    write_fasta(&inp, &records);
    let _ = std::fs::remove_file(&outp);
    let argv = {
        let mut a = vec!["case".to_string(), "OligoReuse".to_string(), which.to_string()];
        a.extend(seq.iter().map(oligo_cfg_code));
        a
    };
    ctx.journal.note(|| format!("oligo reuse {:?}", argv));
    ctx.rep.evaluations += 1;
    let mut oc = OligoComputer::new(inp.clone(), outp.clone(), k);
    let what = format!("one OligoComputer (k={k}, 3 records) run {} times with settings {:?}", seq.len(), seq);
    for (step, cfg) in seq.iter().enumerate() {
        oc.set_threads(cfg.threads);
        oc.set_norm(cfg.norm);
        oc.set_header(cfg.header);
        oc.set_delim(cfg.delim.to_string());
        let (r, res) = execute(&[], FREE_LOGGED, || match cfg.writer {
            "mmap" => oc.verif_vectorise_mmap(),
            "batch" => oc.verif_vectorise_batch(),
            _ => oc.vectorise(),
        });
        let bytes = std::fs::read(&outp).unwrap_or_default();
        let size = seq.len() * 10 + step;
        match r {
            Err(p) => return viol(ctx, "panic", size, format!("{what}: run {step} panicked: {p}"), argv),
            Ok(Err(e)) => return viol(ctx, "error", size, format!("{what}: run {step}: {e}"), argv),
            Ok(Ok(())) => {}
        }
        let used_mmap = cfg.writer == "mmap" || (cfg.writer == "auto" && cfg.norm);
        let case = OligoCase { threads: cfg.threads, k, header: cfg.header, delim: cfg.delim.to_string(), records: records.clone(), memory: None };
        if which == 14 {
            if used_mmap {
                if let Err((key, m)) = c14_check_writes(&case, &res, &bytes) {
                    return viol(ctx, &key, size, format!("{what}: run {step} (settings {:?}): {m}", cfg), argv);
                }
            }
        } else if cfg.norm {
            if let Err((key, m)) = oligo_rows_in_order(&case, &bytes) {
                return viol(ctx, &key, size, format!("{what}: run {step} (settings {:?}): {m}", cfg), argv);
            }
        }
    }
    ctx.rep.nontrivial += 1;
}

pub fn oligo_reuse(ctx: &mut Ctx, which: u32) {
    let mut cfgs: Vec<OligoCfg> = Vec::new();
    for header in [false, true] {
        for delim in [" ", ", ", ""] {
            for (writer, norm) in [("mmap", true), ("batch", true), ("auto", false)] {
                for threads in [1usize, 3] {
                    if delim.is_empty() && !norm {
                        continue;
                    }
                    cfgs.push(OligoCfg { header, delim, writer, threads, norm });
                }
            }
        }
    }
    let mut sh = ctx.shard;
    let mut n = 0u64;
    for a in &cfgs {
        for b in &cfgs {
            if sh.mine() {
                oligo_reuse_sequence(ctx, &[a.clone(), b.clone()], which);
                n += 1;
            }
        }
    }
    if ctx.thorough() {
        for a in &cfgs {
            for b in &cfgs {
                for c in cfgs.iter().step_by(3) {
                    if sh.mine() {
                        oligo_reuse_sequence(ctx, &[a.clone(), b.clone(), c.clone()], which);
                        n += 1;
                    }
                }
            }
        }
    }
    ctx.rep.count("cases.object_reuse_sequences", n);
    if ctx.shard.is_first() {
        ctx.rep.sample("object reuse: one OligoComputer, run with (header, delimiter \", \", mmap writer), then set_header(false) + set_delim(\" \") and run again into the same path".to_string());
        ctx.rep.notes.push(format!("operation sequences on ONE computer object: every ordered pair (thorough: triples) of {} settings (header x 3 delimiters x 3 writer paths x threads 1/3), changed in between through the public setters, same output path; each run is held to the oracle of a fresh computer", cfgs.len()));
    }
}

pub fn replay_oligo_reuse(ctx: &mut Ctx, a: &[String]) {
    let which: u32 = a[1].parse().unwrap();
    let seq: Vec<OligoCfg> = a[2..].iter().map(|s| oligo_cfg_parse(s)).collect();
    oligo_reuse_sequence(ctx, &seq, which);
}

// ------------------------------------------------------------------------------------------ data-parallel batch paths
//
// The batched oligo writer, whole-sequence CGR, k-mer CGR and the coverage compute step process a buffer of records
// with a parallel iterator. Each item announces itself as a task of a scope (hook `ktio::verif::item`), so with
// at least as many pool threads as items the order in which the items run - and every lock or atomic operation an
// item performs through the shim types - is decided by the explorer. Oracle per schedule: the output bytes of a
// one-thread run (itself checked against the per-record routines by the file-level checks).

#[derive(Clone, Debug)]
pub struct BatchCase {
    /// "oligo", "oligo-counts", "cgr", "kcgr", "kcgr-counts", "cov", "cov-counts"
    pub kind: String,
    pub threads: usize,
    pub k: usize,
    /// batch limit in bases (None: one batch)
    pub memory: Option<usize>,
    pub records: Vec<Vec<u8>>,
}

impl BatchCase {
    fn argv(&self, choices: &[u8]) -> Vec<String> {
        vec![
            "case".into(),
            "BatchSched".into(),
            self.kind.clone(),
            self.threads.to_string(),
            self.k.to_string(),
            self.memory.map(|m| m.to_string()).unwrap_or_else(|| "-".into()),
            self.records.iter().map(|r| hex(r)).collect::<Vec<_>>().join(","),
            fmt_choices(choices),
        ]
    }
    fn from_argv(a: &[String]) -> (BatchCase, Vec<u8>) {
        (
            BatchCase {
                kind: a[0].clone(),
                threads: a[1].parse().unwrap(),
                k: a[2].parse().unwrap(),
                memory: a[3].parse().ok(),
                records: if a[4].is_empty() { vec![] } else { a[4].split(',').map(unhex).collect() },
            },
            parse_choices(a.get(5).map(|s| s.as_str()).unwrap_or("")),
        )
    }
    fn describe(&self) -> String {
        format!("{} batch path: {} pool threads, k={}, batch limit {:?} bases, records {:?}", self.kind, self.threads, self.k, self.memory, self.records.iter().map(|r| show(r)).collect::<Vec<_>>())
    }
}

/// one execution of the batch path of `case`; returns the panic/outcome, the scheduler's result and the output bytes
fn batch_exec(case: &BatchCase, scratch: &str, threads: usize, prefix: &[u8], opts: ExecOpts) -> (Result<Result<(), String>, String>, ExecResult, Vec<u8>) {
    let inp = format!("{}/batch_in.fa", scratch);
    let outp = format!("{}/batch_out.txt", scratch);
    let dir = format!("{}/batch_cov", scratch);
    write_fasta(&inp, &case.records);
    let kind = case.kind.as_str();
    if kind.starts_with("cov") {
        // the counts table is built outside the controlled execution (the counter has its own explorations)
        let _ = std::fs::remove_dir_all(&dir);
        std::fs::create_dir_all(&dir).unwrap();
        let mut c = coverage::CovComputer::new(inp.clone(), dir.clone(), case.k, 2, 4);
        c.set_threads(1);
        c.set_max_memory(6.0);
        if let Err(p) = crate::ctx::guard(|| c.build_table().unwrap()) {
            return (Err(p), ExecResult::default(), Vec::new());
        }
    }
    let (r, res) = execute(prefix, opts, || -> Result<(), String> {
        match kind {
            "oligo" | "oligo-counts" => {
                let mut oc = OligoComputer::new(inp.clone(), outp.clone(), case.k);
                oc.set_threads(threads);
                oc.set_norm(kind == "oligo");
                if let Some(m) = case.memory {
                    oc.set_max_memory(m);
                }
                oc.verif_vectorise_batch()
            }
            "cgr" => {
                let mut c = composition::cgr::CgrComputer::new(inp.clone(), outp.clone(), 16);
                c.set_threads(threads);
                if let Some(m) = case.memory {
                    c.verif_set_max_memory(m);
                }
                c.vectorise()
            }
            "kcgr" | "kcgr-counts" => {
                let mut c = composition::oligocgr::OligoCgrComputer::new(inp.clone(), outp.clone(), case.k, 16);
                c.set_threads(threads);
                c.set_norm(kind == "kcgr");
                if let Some(m) = case.memory {
                    c.verif_set_max_memory(m);
                }
                c.vectorise()
            }
            _ => {
                let mut c = coverage::CovComputer::new(inp.clone(), dir.clone(), case.k, 2, 4);
                c.set_threads(threads);
                c.set_norm(kind == "cov");
                // below 1 the step flushes after every record, otherwise once at the end
                c.set_max_memory(if case.memory.is_some() { 0.5 } else { 6.0 });
                c.compute_coverages();
                Ok(())
            }
        }
    });
    let bytes = std::fs::read(if kind.starts_with("cov") { format!("{dir}/kmers.vectors") } else { outp }).unwrap_or_default();
    (r, res, bytes)
}

pub fn batch_explore(ctx: &mut Ctx, case: &BatchCase, bound: Option<u32>, label: &str) {
    let what = case.describe();
    let scratch = ctx.scratch.clone();
    // reference: the same job on one pool thread, free-running
    let free = ExecOpts { controlled: false, logging: false, symmetry: false };
    let (r0, _, reference) = batch_exec(case, &scratch, 1, &[], free);
    if !matches!(r0, Ok(Ok(()))) {
        return viol(ctx, "panic", case.records.len(), format!("{what}: the one-thread run failed: {:?}", r0), case.argv(&[]));
    }
    let ctl = ExecOpts { controlled: true, logging: true, symmetry: false };
    determinism_check(&what, |p| batch_exec(case, &scratch, case.threads, p, ctl).1);
    let always = |_: &Choice| true;
    let cfg = ExploreCfg { bound, shard: (ctx.shard.idx, ctx.shard.n), split_level: 2, root: vec![], branch: &always, max_executions: 1_000_000, window: window_now() };
    let mut found: Option<(String, String, Vec<u8>)> = None;
    let mut orders: BTreeSet<String> = BTreeSet::new();
    let stats = explore(&cfg, |prefix, counted| {
        let (r, res, bytes) = batch_exec(case, &scratch, case.threads, prefix, ctl);
        engine_health(&res, &what, prefix);
        if counted {
            // order in which the items finished (non-vacuity: different completion orders were produced)
            orders.insert(res.events.iter().filter(|e| e.site == "task.exit").map(|e| format!("{}.{}", e.phase, e.arg)).collect::<Vec<_>>().join(" "));
        }
        let bad = if res.deadlock {
            Some(("deadlock".to_string(), "no item enabled but some blocked on a mutex".to_string()))
        } else if let Some(p) = &res.panicked {
            Some(("panic".to_string(), format!("an item panicked: {p}")))
        } else if let Err(p) = &r {
            Some(("panic".to_string(), format!("panicked: {p}")))
        } else if let Ok(Err(e)) = &r {
            Some(("error".to_string(), e.clone()))
        } else if bytes != reference {
            let (gl, rl) = (bytes.split(|&b| b == b'\n').count(), reference.split(|&b| b == b'\n').count());
            Some((if gl != rl { "output-size".to_string() } else { "rows-differ-from-one-thread-run".to_string() }, format!("output {:?} differs from the output of the same job on one thread {:?}", String::from_utf8_lossy(&bytes[..bytes.len().min(400)]), String::from_utf8_lossy(&reference[..reference.len().min(400)]))))
        } else {
            None
        };
        if counted {
            ctx.rep.evaluations += 1;
            ctx.rep.nontrivial += 1;
        }
        match bad {
            Some((k, m)) => {
                found = Some((k, m, res.choices()));
                (res, false)
            }
            None => (res, true),
        }
    });
    record_stats(ctx, &stats, bound, label);
    ctx.rep.count("sched.batch.distinct_completion_orders", orders.len() as u64);
    if let Some((k, m, choices)) = found {
        let pre = choices.iter().filter(|&&c| c != 0).count();
        viol(ctx, &k, case.records.len() * 10 + pre, format!("{what}; schedule {} ({} deviations): {m}", fmt_choices(&choices), pre), case.argv(&choices));
    }
}

/// the registered batch cases of one family ("oligo", "cgr", "kcgr", "cov")
pub fn batch_cases(ctx: &Ctx, family: &str) -> Vec<(BatchCase, Option<u32>, String)> {
    let clean3: Vec<Vec<u8>> = vec![b"ACGTAC".to_vec(), b"GGA".to_vec(), b"TTGCATG".to_vec()];
    // records without any window next to ordinary ones (all-zero rows), twice the same record, an empty record
    let mixed3: Vec<Vec<u8>> = vec![b"A".to_vec(), b"ACGTTGCA".to_vec(), b"N".to_vec()];
    let mixed4: Vec<Vec<u8>> = vec![b"ACGTAC".to_vec(), b"".to_vec(), b"ACGTAC".to_vec(), b"NN".to_vec()];
    let kinds: Vec<&str> = match family {
        "oligo" => vec!["oligo", "oligo-counts"],
        "cgr" => vec!["cgr"],
        "kcgr" => vec!["kcgr", "kcgr-counts"],
        _ => vec!["cov", "cov-counts"],
    };
    let mut out = Vec::new();
    for kind in kinds {
        let sets: Vec<(&str, Vec<Vec<u8>>)> = if kind == "cgr" {
            vec![("clean2", clean3[..2].to_vec()), ("clean3", clean3.clone()), ("clean4", vec![b"A".to_vec(), b"CC".to_vec(), b"A".to_vec(), b"GTT".to_vec()])]
        } else {
            vec![("clean2", clean3[..2].to_vec()), ("mixed3", mixed3.clone()), ("mixed4", mixed4.clone())]
        };
        for (tag, recs) in sets {
            let n = recs.len();
            // one batch: unbounded for two and three items, preemption-bounded for four
            out.push((BatchCase { kind: kind.to_string(), threads: n, k: 3, memory: None, records: recs.clone() }, if n <= 3 { None } else { Some(ctx.pick(2, 4)) }, format!("batch.{kind}.{tag}")));
            if n >= 3 {
                // several batches (a small limit closes a batch after one or two records): state must not leak from
                // one batch into the next; more pool threads than items
                out.push((BatchCase { kind: kind.to_string(), threads: n + 1, k: 3, memory: Some(7), records: recs.clone() }, if n <= 3 { None } else { Some(ctx.pick(2, 4)) }, format!("batch.{kind}.{tag}.mem7")));
            }
        }
    }
    out
}

pub fn batch_explore_family(ctx: &mut Ctx, family: &str) {
    for (case, bound, label) in batch_cases(ctx, family) {
        batch_explore(ctx, &case, bound, &label);
    }
    ctx.lap(&format!("batch_sched.{family}"));
}

pub fn replay_batch(ctx: &mut Ctx, args: &[String]) {
    let (case, choices) = BatchCase::from_argv(&args[1..]);
    let scratch = ctx.scratch.clone();
    let free = ExecOpts { controlled: false, logging: false, symmetry: false };
    let (_, _, reference) = batch_exec(&case, &scratch, 1, &[], free);
    let ctl = ExecOpts { controlled: true, logging: true, symmetry: false };
    let (r, res, bytes) = batch_exec(&case, &scratch, case.threads, &choices, ctl);
    engine_health(&res, "replay", &choices);
    ctx.rep.evaluations += 1;
    if !matches!(r, Ok(Ok(()))) || res.deadlock || res.panicked.is_some() || bytes != reference {
        viol(ctx, "rows-differ-from-one-thread-run", 0, format!("{}; schedule {}: outcome {:?}, deadlock {}, output {:?}, one-thread output {:?}", case.describe(), fmt_choices(&choices), r, res.deadlock, String::from_utf8_lossy(&bytes[..bytes.len().min(400)]), String::from_utf8_lossy(&reference[..reference.len().min(400)])), vec![]);
    }
}
