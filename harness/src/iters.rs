//! C01, C02, C09, C18: bounded-exhaustive exploration of the sequential iterators against the models.
use crate::ctx::{guard, Ctx};
use crate::enumr::{fill, for_each_string, strings, S4, S5};
use crate::model;
use crate::out::{hex, show, Violation};
use kmer::kmer::KmerGenerator;
use kmer::kmer_minimisers::KmerMinimiserGenerator;
use kmer::minimiser::MinimiserGenerator;
use kmer::numeric_to_kmer;

/// pseudo-random (LCG, fixed seeds) long sequence over ACGT with lower case, U and a few ambiguous bytes and runs
pub fn long_input(len: usize, seed: u64) -> Vec<u8> {
    let mut x = seed.wrapping_mul(0x9E37_79B9_7F4A_7C15) | 1;
    let mut v: Vec<u8> = (0..len)
        .map(|_| {
            x = x.wrapping_mul(6364136223846793005).wrapping_add(1442695040888963407);
            let r = (x >> 33) % 1000;
            if r < 4 {
                b'N'
            } else {
                b"ACGTacgtUu"[((x >> 43) % 10) as usize]
            }
        })
        .collect();
    // a long single-letter run and a long low-complexity stretch across the power-of-two positions
    for (at, n, unit) in [(4000usize, 200usize, &b"A"[..]), (8100, 200, b"AC"), (16_300, 150, b"T")] {
        if at + n < len {
            for j in 0..n {
                v[at + j] = unit[j % unit.len()];
            }
        }
    }
    v
}

/// medium-sized pseudo-random inputs (fixed LCG seeds, no sampling of verdicts: the same inputs every run) of
/// irregular lengths, with a few per cent of ambiguous bytes of several kinds - content that neither the small
/// scopes nor the structured families contain
pub fn medium_inputs(n: usize) -> Vec<Vec<u8>> {
    let lens = [37usize, 61, 150, 333, 997, 1234, 2500, 3001];
    (0..n)
        .map(|i| {
            let len = lens[i % lens.len()] + (i / lens.len()) % 17;
            let mut x = (i as u64 + 1).wrapping_mul(0x9E37_79B9_7F4A_7C15) | 1;
            (0..len)
                .map(|_| {
                    x = x.wrapping_mul(6364136223846793005).wrapping_add(1442695040888963407);
                    let r = (x >> 33) % 100;
                    if r < 3 {
                        b"NnRY-"[((x >> 50) % 5) as usize]
                    } else {
                        b"ACGTACGTacgtUu"[((x >> 43) % 14) as usize]
                    }
                })
                .collect()
        })
        .collect()
}

/// record lengths at and around the round numbers a size threshold would be written as
pub const THRESHOLD_LENGTHS: [usize; 24] = [
    99, 100, 101, 999, 1000, 1001, 4095, 4096, 4097, 4999, 5000, 5001, 9_999, 10_000, 10_001, 65_535, 65_536, 65_537, 99_999, 100_000, 100_001, 999_999,
    1_000_000, 1_000_001,
];

/// one input with uninterrupted clean runs longer than 2^8, 2^16 and 2^17 bases (the widths a run-length or
/// position counter could plausibly be narrowed to), separated by single ambiguous bytes
pub fn clean_run_input() -> Vec<u8> {
    let mut x: u64 = 0x1234_5678_9abc_def1;
    let mut v: Vec<u8> = Vec::new();
    for run in [300usize, 65_600, 131_200] {
        for _ in 0..run {
            x = x.wrapping_mul(6364136223846793005).wrapping_add(1442695040888963407);
            v.push(b"ACGTacgtUu"[((x >> 43) % 10) as usize]);
        }
        v.push(b'N');
    }
    v.extend_from_slice(b"ACGTAC");
    v
}

/// The same bytes at another start address: callers hand the iterators sub-slices of larger buffers (a record inside a
/// memory-mapped file, a field of a line), so the address of the first byte modulo the machine word is part of the
/// input. The bytes around the slice are valid bases, so that reading outside it changes the result.
pub struct Placed {
    buf: Vec<u8>,
    start: usize,
    len: usize,
}

impl Placed {
    pub fn new(seq: &[u8], residue: usize) -> Placed {
        let mut buf = vec![b'C'; seq.len() + 24];
        let a = buf.as_ptr() as usize % 8;
        let start = 8 + (8 + residue - a) % 8;
        buf[start..start + seq.len()].copy_from_slice(seq);
        Placed { buf, start, len: seq.len() }
    }
    pub fn get(&self) -> &[u8] {
        &self.buf[self.start..self.start + self.len]
    }
}

/// start-address residues (mod 8) other than the slice's own at which a case is run again: all seven for inputs of
/// 16..=4096 bytes (shorter ones cannot hold a machine word beyond a boundary plus anything else; the exhaustive
/// small scope stays below 16), one for longer inputs
pub fn other_residues(seq: &[u8], salt: usize) -> Vec<usize> {
    let own = seq.as_ptr() as usize % 8;
    if seq.len() < 16 {
        Vec::new()
    } else if seq.len() <= 4096 {
        (0..8).filter(|&r| r != own).collect()
    } else {
        vec![(own + 1 + (seq.len() + salt) % 7) % 8]
    }
}

/// lead of 0..=8 bases, a run of ambiguous bytes, an island of 1..=9 bases, a second run, a tail
pub fn two_runs_islands() -> Vec<Vec<u8>> {
    let bases = b"ACGTTGCAAGCTTAGGC";
    let mut out = Vec::new();
    for lead in 0..=8usize {
        for run1 in [1usize, 7, 8, 9, 16, 17] {
            for island in 1..=9usize {
                for run2 in [1usize, 7, 8, 9, 16, 17, 24] {
                    let mut s = bases[..lead].to_vec();
                    s.extend(std::iter::repeat(b'N').take(run1));
                    s.extend_from_slice(&bases[3..3 + island]);
                    s.extend(std::iter::repeat(b'N').take(run2));
                    s.extend_from_slice(b"ACGTTGCA");
                    out.push(s.clone());
                    // the same with each run closed by ANOTHER ambiguous byte (an IUPAC code, a soft-masked n, a gap sign)
                    if run1 >= 7 && island <= 3 {
                        for (j, &closer) in b"Rn-".iter().enumerate() {
                            if (lead + island + j) % 3 == 0 {
                                let mut t = s.clone();
                                t[lead + run1 - 1] = closer;
                                let end2 = lead + run1 + island + run2 - 1;
                                t[end2] = closer;
                                out.push(t);
                            }
                        }
                    }
                }
            }
        }
    }
    out
}

/// One record with more than 2^32 unambiguous bases in a row (a 1021-periodic pseudo-random text), streamed through the
/// k-mer iterator without collecting: the number of pairs, the first and the last 64 pairs (against the model on the
/// corresponding pieces of text), and for every pair that the second code is the reverse complement of the first
/// (checked on the fly on a stride, completely on the ends). Returns None if all is as it must be.
pub fn four_gibibase_run(k: usize) -> Option<(String, String)> {
    let n: usize = (1usize << 32) + 1000;
    let unit: Vec<u8> = long_input(1021, 5).iter().map(|&b| if b"ACGT".contains(&b) { b } else { b'T' }).collect();
    let mut s: Vec<u8> = Vec::with_capacity(n);
    while s.len() < n {
        let take = unit.len().min(n - s.len());
        s.extend_from_slice(&unit[..take]);
    }
    let r = guard(|| {
        let mut count: u64 = 0;
        let mut first: Vec<(u64, u64)> = Vec::new();
        let mut last: std::collections::VecDeque<(u64, u64)> = std::collections::VecDeque::new();
        let mut bad_pair: Option<(u64, (u64, u64))> = None;
        for it in KmerGenerator::new(&s, k) {
            if first.len() < 64 {
                first.push(it);
            }
            if count % 1_000_003 == 0 && bad_pair.is_none() && it.1 as u128 != model::rc_code(it.0 as u128, k) {
                bad_pair = Some((count, it));
            }
            last.push_back(it);
            if last.len() > 64 {
                last.pop_front();
            }
            count += 1;
        }
        (count, first, last.into_iter().collect::<Vec<_>>(), bad_pair)
    });
    // the same buffer, cut to 2^31 + 70 bases with one ambiguous byte at index 5: more than 2^31 bases behind it
    if let Ok((count, ..)) = &r {
        if *count == (n - k + 1) as u64 {
            let cut = (1usize << 31) + 70;
            let saved = s[5];
            s[5] = b'N';
            let r2 = guard(|| {
                let mut count: u64 = 0;
                let mut first: Option<(u64, u64)> = None;
                let mut last: Option<(u64, u64)> = None;
                for it in KmerGenerator::new(&s[..cut], k) {
                    if first.is_none() {
                        first = Some(it);
                    }
                    last = Some(it);
                    count += 1;
                }
                (count, first, last)
            });
            s[5] = saved;
            let want = (cut - 6 - k + 1) as u64;
            let w0 = model::windows(&s[6..6 + k], k)[0];
            let w1 = model::windows(&s[cut - k..cut], k)[0];
            match r2 {
                Err(p) => return Some(("panic".into(), format!("KmerGenerator over one record of 2^31 + 70 bases with an ambiguous byte at index 5, k={k}: panicked: {p}"))),
                Ok((c, f, l)) => {
                    if c != want || f != Some((w0.1 as u64, w0.2 as u64)) || l != Some((w1.1 as u64, w1.2 as u64)) {
                        return Some(("item-count".into(), format!("KmerGenerator over one record of 2^31 + 70 bases with an ambiguous byte at index 5, k={k}: {c} pairs (expected {want}), first {:?} (expected codes {} {}), last {:?} (expected {} {})", f, w0.1, w0.2, l, w1.1, w1.2)));
                    }
                }
            }
        }
    }
    match r {
        Err(p) => Some(("panic".into(), format!("KmerGenerator over one record of 2^32 + 1000 unambiguous bases, k={k}: panicked: {p}"))),
        Ok((count, first, last, bad_pair)) => {
            let want = (n - k + 1) as u64;
            let head: Vec<(u64, u64)> = model::windows(&s[..63 + k], k).iter().map(|w| (w.1 as u64, w.2 as u64)).collect();
            let tail: Vec<(u64, u64)> = model::windows(&s[n - 63 - k..], k).iter().map(|w| (w.1 as u64, w.2 as u64)).collect();
            if count != want {
                Some(("item-count".into(), format!("KmerGenerator over one record of 2^32 + 1000 unambiguous bases, k={k}: {count} pairs, expected {want}")))
            } else if let Some((i, p)) = bad_pair {
                Some(("pair-not-revcomp".into(), format!("one record of 2^32 + 1000 unambiguous bases, k={k}: pair {i} = {:?} is not (code, reverse complement)", p)))
            } else if first != head {
                Some(("forward-code".into(), format!("one record of 2^32 + 1000 unambiguous bases, k={k}: the first 64 pairs are {:?}, expected {:?}", first, head)))
            } else if last != tail {
                Some(("forward-code".into(), format!("one record of 2^32 + 1000 unambiguous bases, k={k}: the last 64 pairs are {:?}, expected {:?}", last, tail)))
            } else {
                None
            }
        }
    }
}

fn in_small_scope(seq: &[u8], maxlen: usize) -> bool {
    seq.len() <= maxlen && seq.iter().all(|b| S5.contains(b))
}

// ------------------------------------------------------------------------------------------ C01

/// one execution of the real k-mer iterator compared with the model; returns (nontrivial, ok)
pub fn c01_case(ctx: &mut Ctx, family: &str, seq: &[u8], k: usize) -> bool {
    ctx.journal
        .note(|| format!("C01 {} seq={} k={}", family, hex(seq), k));
    let exp = model::windows(seq, k);
    let got = guard(|| KmerGenerator::new(seq, k).collect::<Vec<(u64, u64)>>());
    ctx.rep.evaluations += 1;
    let mut bad: Option<(String, String)> = None;
    match &got {
        Err(p) => bad = Some(("panic".into(), format!("panicked: {}", p))),
        Ok(items) => {
            if items.len() != exp.len() {
                bad = Some((
                    "item-count".into(),
                    format!("expected {} items, got {}", exp.len(), items.len()),
                ));
            } else {
                for (i, ((f, r), (pos, ef, er))) in items.iter().zip(exp.iter()).enumerate() {
                    if (*f as u128) >= model::pow4(k) {
                        bad = Some((
                            "code-out-of-range".into(),
                            format!("item {} forward code {} >= 4^{}", i, f, k),
                        ));
                        break;
                    }
                    if *f as u128 != *ef {
                        bad = Some((
                            "forward-code".into(),
                            format!("item {} (window at {}): forward code {} expected {}", i, pos, f, ef),
                        ));
                        break;
                    }
                    if *r as u128 != *er {
                        bad = Some((
                            "reverse-code".into(),
                            format!("item {} (window at {}): reverse code {} expected {}", i, pos, r, er),
                        ));
                        break;
                    }
                }
            }
        }
    }
    if let Some((key, what)) = bad {
        ctx.rep.violation(Violation {
            key,
            size: seq.len() * 64 + k,
            desc: format!(
                "KmerGenerator::new({:?}, {}) [{}]: {}; expected windows (start,fwd,rev) = {:?}, got {:?}",
                show(seq),
                k,
                family,
                what,
                exp,
                got
            ),
            argv: vec!["case".into(), "C01".into(), hex(seq), k.to_string()],
        });
        return false;
    }
    if let Ok(items) = &got {
        for r in other_residues(seq, k) {
            let p = Placed::new(seq, r);
            let again = guard(|| KmerGenerator::new(p.get(), k).collect::<Vec<(u64, u64)>>());
            ctx.rep.count("cases.start_address_variants", 1);
            if again.as_ref().ok() != Some(items) {
                ctx.rep.violation(Violation {
                    key: "start-address".into(),
                    size: seq.len() * 64 + k,
                    desc: format!("KmerGenerator::new({:?}, {}) [{}]: the same bytes at a start address = {} (mod 8) give {:?}, expected {:?}", show(seq), k, family, r, again, items),
                    argv: vec!["case".into(), "C01".into(), hex(seq), k.to_string()],
                });
                return false;
            }
        }
    }
    // consumption modes (on every case that is short enough to keep this cheap, and on a fraction of the long ones)
    if seq.len() <= 7 || (seq.len() > 1000 && k % 10 == 1) {
        if let Ok(items) = &got {
            let r = guard(|| consumption_modes(|| KmerGenerator::new(seq, k), items));
            let msg = match r {
                Ok(None) => None,
                Ok(Some(m)) => Some(m),
                Err(p) => Some(format!("panicked: {p}")),
            };
            if let Some(m) = msg {
                ctx.rep.violation(Violation {
                    key: "consumption-mode".into(),
                    size: seq.len() * 64 + k,
                    desc: format!("KmerGenerator::new({:?}, {}) [{}]: a next() loop yields {:?}, but {}", show(seq), k, family, items, m),
                    argv: vec!["case".into(), "C01".into(), hex(seq), k.to_string()],
                });
                return false;
            }
        }
    }
    true
}

/// The iterator is an object with a protocol: however it is consumed (external `next`, internal iteration through
/// `fold`-based adapters, a mixture, `nth`, `last`, `count`), it must hand out the same items. `full` is what a plain
/// `next()` loop delivered.
fn consumption_modes<I, T, F>(make: F, full: &[T]) -> Option<String>
where
    I: Iterator<Item = T>,
    T: PartialEq + Clone + std::fmt::Debug,
    F: Fn() -> I,
{
    // internal iteration from a fresh iterator
    let mut v: Vec<T> = Vec::new();
    make().for_each(|x| v.push(x));
    if v != full {
        return Some(format!("for_each on a fresh iterator gives {:?}", v));
    }
    if make().count() != full.len() {
        return Some(format!("count() = {} but next() yields {} items", make().count(), full.len()));
    }
    if make().last() != full.last().cloned() {
        return Some("last() differs from the last item of a next() loop".to_string());
    }
    // n items by next(), the rest by internal iteration / by collect / by nth
    for n in 0..=full.len().min(3) {
        let mut it = make();
        let mut got: Vec<T> = Vec::new();
        for _ in 0..n {
            if let Some(x) = it.next() {
                got.push(x);
            }
        }
        it.for_each(|x| got.push(x));
        if got != full {
            return Some(format!("{n} item(s) by next() and the rest by for_each gives {:?}", got));
        }
        let got: Vec<T> = make().skip(n).collect();
        if got[..] != full[n.min(full.len())..] {
            return Some(format!("skip({n}) then collect gives {:?}", got));
        }
        if make().nth(n) != full.get(n).cloned() {
            return Some(format!("nth({n}) differs"));
        }
        let mut it = make();
        let head: Vec<T> = it.by_ref().take(n).collect();
        let mut tail: Vec<T> = Vec::new();
        let acc = it.fold(0usize, |a, x| {
            tail.push(x);
            a + 1
        });
        if head[..] != full[..n.min(full.len())] || tail[..] != full[n.min(full.len())..] || acc != tail.len() {
            return Some(format!("take({n}) through by_ref and then fold gives {:?} + {:?}", head, tail));
        }
    }
    // exhausted iterators stay exhausted
    let mut it = make();
    while it.next().is_some() {}
    if it.next().is_some() {
        return Some("yields an item after having returned None".to_string());
    }
    None
}

fn c01_nontrivial(seq: &[u8], k: usize) -> bool {
    // at least one valid window, or an ambiguous byte that matters (sequence at least k long)
    seq.len() >= k && (seq.iter().any(|&b| model::class(b).is_none()) || !seq.is_empty())
}

pub fn c01(ctx: &mut Ctx) {
    // (1) small scope
    let l = ctx.pick(8, 13);
    let kmax_small = ctx.pick(31, 13);
    let mut n_small = 0u64;
    {
        let mut sh = ctx.shard;
        let mut todo: Vec<Vec<u8>> = Vec::new();
        for_each_string(S5, 0, l, |s| {
            if sh.mine() {
                todo.push(s.to_vec());
            }
            // flush in blocks to bound memory
            if todo.len() >= 4096 {
                for s in todo.drain(..) {
                    for k in 1..=kmax_small {
                        c01_case(ctx, "small-scope", &s, k);
                        if c01_nontrivial(&s, k) {
                            ctx.rep.nontrivial += 1;
                        }
                        n_small += 1;
                    }
                }
            }
        });
        for s in todo.drain(..) {
            for k in 1..=kmax_small {
                c01_case(ctx, "small-scope", &s, k);
                if c01_nontrivial(&s, k) {
                    ctx.rep.nontrivial += 1;
                }
                n_small += 1;
            }
        }
    }
    ctx.rep.count("cases.small_scope", n_small);
    if ctx.shard.is_first() {
        ctx.rep.sample(format!("small-scope: KmerGenerator(\"ACNGT\", k=2) vs windows model; all strings over ACGTN of length 0..={} x k 1..={}", l, kmax_small));
    }

    // (2) byte classes: every byte value 4..=255 in every context u.b.v, u,v in S4^{<=3}, k in 1..=3
    let ctxs = strings(S4, 0, ctx.pick(2, 3));
    let mut sh = ctx.shard;
    let mut n_bytes = 0u64;
    for b in 4u16..=255 {
        let b = b as u8;
        for u in &ctxs {
            for v in &ctxs {
                if !sh.mine() {
                    continue;
                }
                let mut s = u.clone();
                s.push(b);
                s.extend_from_slice(v);
                for k in 1..=3 {
                    c01_case(ctx, "byte-class", &s, k);
                    n_bytes += 1;
                    if !in_small_scope(&s, l) {
                        ctx.rep.nontrivial += 1;
                    }
                }
            }
        }
    }
    ctx.rep.count("cases.byte_class", n_bytes);
    // (2b) several DIFFERENT ambiguous bytes next to each other and in one input (N, an IUPAC letter, lower-case n, a dash)
    {
        let mut sh = ctx.shard;
        let mut todo: Vec<Vec<u8>> = Vec::new();
        for_each_string(b"ACTNRn-", 0, ctx.pick(6, 7), |s| {
            if sh.mine() && s.iter().filter(|b| !S4.contains(b)).count() >= 2 {
                todo.push(s.to_vec());
            }
        });
        let mut n2 = 0u64;
        for s in &todo {
            for k in 1..=3 {
                c01_case(ctx, "mixed-ambiguous", s, k);
                n2 += 1;
                ctx.rep.nontrivial += 1;
            }
        }
        ctx.rep.count("cases.mixed_ambiguous", n2);
    }

    // (3) transition cover of the reference machine
    let kmax_t = ctx.pick(7, 9);
    let d = ctx.pick(2, 3);
    let conts = strings(S5, 0, d);
    let prefixes: [&[u8]; 3] = [b"", b"N", b"AN"];
    let mut sh = ctx.shard;
    let mut states = 0u64;
    let mut traces = 0u64;
    for k in 1..=kmax_t {
        // model states: clean suffixes of length <= k
        let sts = strings(S4, 0, k);
        states += sts.len() as u64;
        for st in &sts {
            if !sh.mine() {
                continue;
            }
            for p in prefixes.iter() {
                for &c in S5 {
                    for z in &conts {
                        let mut s = p.to_vec();
                        s.extend_from_slice(st);
                        s.push(c);
                        s.extend_from_slice(z);
                        c01_case(ctx, "transition-cover", &s, k);
                        traces += 1;
                        if !in_small_scope(&s, l) {
                            ctx.rep.nontrivial += 1;
                        }
                    }
                }
            }
        }
    }
    ctx.rep.set_max("model_states_max", states);
    ctx.rep.set_max("model_transitions_max", states * 5);
    ctx.rep.count("traces_validated", traces);

    // (4) large-k structured family, every k in 1..=31
    let ps = strings(S5, 0, ctx.pick(2, 3));
    let units = strings(S4, 1, ctx.pick(2, 3));
    let mut sh = ctx.shard;
    let mut n_fam = 0u64;
    for k in 1..=31usize {
        let lens = [k.saturating_sub(1), k, k + 1, k + 2, 2 * k + 1];
        for p in &ps {
            for s2 in &ps {
                for u in &units {
                    if !sh.mine() {
                        continue;
                    }
                    for &n in &lens {
                        let mut s = p.clone();
                        s.extend_from_slice(&fill(u, n));
                        s.extend_from_slice(s2);
                        c01_case(ctx, "large-k-family", &s, k);
                        n_fam += 1;
                        if !in_small_scope(&s, l) {
                            ctx.rep.nontrivial += 1;
                        }
                    }
                }
            }
        }
    }
    ctx.rep.count("cases.large_k_family", n_fam);
    // long inputs (beyond any block size a routine might switch strategy at), every k
    let mut sh = ctx.shard;
    let mut n_long = 0u64;
    let mut longs: Vec<Vec<u8>> = [(4097usize, 1u64), (8193, 2), (20_000, 3), (70_000, 4)].iter().map(|&(len, seed)| long_input(len, seed)).collect();
    longs.push(clean_run_input());
    for (i, s) in medium_inputs(ctx.pick(400, 4000)).iter().enumerate() {
        for k in [1 + i % 31, 31 - i % 7] {
            if sh.mine() {
                c01_case(ctx, "medium-random", s, k);
                n_long += 1;
                ctx.rep.nontrivial += 1;
            }
        }
    }
    // two runs of ambiguous bytes with a short island of bases between them, at every position within a machine word
    for s in two_runs_islands() {
        for k in 1..=9usize {
            if sh.mine() {
                c01_case(ctx, "two-runs-island", &s, k);
            }
        }
    }
    // runs of ambiguous bytes of every length around the block sizes a routine might scan by (8, 16, 32, 64, 128),
    // starting at every alignment within such a block, between clean stretches
    for gap in [1usize, 7, 8, 9, 15, 16, 17, 31, 32, 33, 63, 64, 65, 127, 128, 129, 191, 192, 193, 255, 256, 257, 300] {
        for offset in [0usize, 1, 5, 31, 32, 33, 63, 64, 65, 70, 127, 128, 130] {
            if !sh.mine() {
                continue;
            }
            let mut s = long_input(offset + 3, 7)[..offset].to_vec();
            s.iter_mut().for_each(|b| {
                if *b == b'N' {
                    *b = b'C'
                }
            });
            s.extend(std::iter::repeat(if gap % 2 == 0 { b'N' } else { b'n' }).take(gap));
            s.extend_from_slice(b"ACGTTGCAAGCTTAGGCATCGATCGGATTACAGATTACACCAGTAGCTAACGGTCAGTCAGGTCAAACCGGTTAC");
            for k in [1usize, 2, 3, 16, 31] {
                c01_case(ctx, "ambiguous-run", &s, k);
                n_long += 1;
                ctx.rep.nontrivial += 1;
            }
        }
    }
    // lengths at round numbers (a few k only beyond 10 000 bases)
    for (i, &len) in THRESHOLD_LENGTHS.iter().enumerate() {
        let s = long_input(len, 40 + i as u64);
        for k in [1usize, 2, 15, 31] {
            if sh.mine() {
                c01_case(ctx, "threshold-length", &s, k);
                n_long += 1;
                ctx.rep.nontrivial += 1;
            }
        }
    }
    for s in longs {
        for k in 1..=31usize {
            if sh.mine() {
                c01_case(ctx, "long-input", &s, k);
                n_long += 1;
                ctx.rep.nontrivial += 1;
            }
        }
    }
    // a clean run longer than 32 bits can count, in ONE record (the last shard takes it: about 4.3 GB of memory)
    if ctx.shard.idx + 1 == ctx.shard.n {
        ctx.rep.evaluations += 1;
        ctx.rep.nontrivial += 1;
        ctx.rep.count("cases.run_beyond_2_pow_32", 1);
        if let Some((key, desc)) = four_gibibase_run(21) {
            ctx.rep.violation(Violation { key, size: 1 << 40, desc, argv: vec!["case".into(), "C01giant".into(), "21".into()] });
        }
    }
    ctx.rep.count("cases.long_inputs", n_long);
    if ctx.shard.is_first() {
        ctx.rep.sample("byte-class: \"AC\" + 0x7f + \"GT\", k=2".to_string());
        ctx.rep.sample(format!("transition-cover: prefix \"AN\" + state \"ACG\" + class 'N' + continuation \"TA\", k=4 (k 1..={}, D={})", kmax_t, d));
        ctx.rep.sample("large-k-family: \"N\" + (\"AC\" repeated to 63 bases) + \"TG\", k=31".to_string());
        ctx.rep.notes.push(format!(
            "C01 spaces: small scope S5^(0..={}) x k 1..={}; byte values 4..=255 in contexts S4^(<=n) x k 1..=3; transition cover k 1..={} with prefixes (empty, N, AN), D={}; large-k family for every k 1..=31",
            l, kmax_small, kmax_t, d
        ));
    }
}

// ------------------------------------------------------------------------------------------ C02

fn c02_violation(ctx: &mut Ctx, key: &str, size: usize, desc: String, argv: Vec<String>) {
    ctx.rep.violation(Violation {
        key: key.to_string(),
        size,
        desc,
        argv,
    });
}

/// checks on one code
pub fn c02_code(ctx: &mut Ctx, x: u128, k: usize) {
    ctx.journal.note(|| format!("C02 code x={} k={}", x, k));
    ctx.rep.evaluations += 1;
    let argv = vec!["case".into(), "C02code".into(), x.to_string(), k.to_string()];
    let xs = x as u64;
    let r = guard(|| {
        let rc = KmerGenerator::rev_comp(xs, k);
        let rcrc = KmerGenerator::rev_comp(rc, k);
        let text = numeric_to_kmer(xs, k);
        (rc, rcrc, text)
    });
    match r {
        Err(p) => c02_violation(ctx, "panic", k, format!("code {} k={} panicked: {}", x, k, p), argv),
        Ok((rc, rcrc, text)) => {
            let exp_rc = model::rc_code(x, k);
            if rc as u128 != exp_rc {
                c02_violation(
                    ctx,
                    "revcomp-value",
                    k,
                    format!(
                        "rev_comp({}, {}) = {} but the reverse-complemented text {:?} has code {}",
                        x,
                        k,
                        rc,
                        show(&model::text_of(exp_rc, k)),
                        exp_rc
                    ),
                    argv,
                );
            } else if rcrc != xs {
                c02_violation(ctx, "revcomp-involution", k, format!("rev_comp(rev_comp({x},{k})) = {rcrc}"), argv);
            } else if text.len() != k
                || !text.bytes().all(|b| b"ACGT".contains(&b))
                || model::code_of(text.as_bytes()) != Some(x)
            {
                c02_violation(
                    ctx,
                    "decode",
                    k,
                    format!("numeric_to_kmer({x},{k}) = {text:?}, expected {:?}", show(&model::text_of(x, k))),
                    argv,
                );
            }
        }
    }
}

/// strand symmetry on one sequence
pub fn c02_stream(ctx: &mut Ctx, seq: &[u8], k: usize) {
    ctx.journal
        .note(|| format!("C02 stream seq={} k={}", hex(seq), k));
    ctx.rep.evaluations += 1;
    let argv = vec!["case".into(), "C02stream".into(), hex(seq), k.to_string()];
    let rc = model::rc_text(seq);
    let r = guard(|| {
        (
            KmerGenerator::new(seq, k).collect::<Vec<(u64, u64)>>(),
            KmerGenerator::new(&rc, k).collect::<Vec<(u64, u64)>>(),
        )
    });
    let size = seq.len() * 64 + k;
    match r {
        Err(p) => c02_violation(ctx, "panic", size, format!("{:?} k={} panicked: {}", show(seq), k, p), argv),
        Ok((a, b)) => {
            for (i, (f, r)) in a.iter().enumerate() {
                if *r as u128 != model::rc_code(*f as u128, k) {
                    c02_violation(
                        ctx,
                        "pair-not-revcomp",
                        size,
                        format!("{:?} k={}: item {} = ({}, {}) but rc({}) = {}", show(seq), k, i, f, r, f, model::rc_code(*f as u128, k)),
                        argv,
                    );
                    return;
                }
            }
            let mirrored: Vec<(u64, u64)> = a.iter().rev().map(|&(f, r)| (r, f)).collect();
            if b != mirrored {
                c02_violation(
                    ctx,
                    "stream-not-mirrored",
                    size,
                    format!(
                        "{:?} k={}: stream {:?}; stream of reverse complement {:?} is {:?}, expected {:?}",
                        show(seq), k, a, show(&rc), b, mirrored
                    ),
                    argv,
                );
                return;
            }
            for res in other_residues(seq, k) {
                let p = Placed::new(seq, res);
                let again = guard(|| KmerGenerator::new(p.get(), k).collect::<Vec<(u64, u64)>>());
                ctx.rep.count("cases.start_address_variants", 1);
                if again.as_ref().ok() != Some(&a) {
                    c02_violation(ctx, "start-address", size, format!("{:?} k={}: the same bytes at a start address = {} (mod 8) give the pairs {:?}, not {:?}", show(seq), k, res, again, a), argv);
                    return;
                }
            }
            // the pairs must be the same however the iterator object is consumed
            if seq.len() <= 7 {
                match guard(|| consumption_modes(|| KmerGenerator::new(seq, k), &a)) {
                    Ok(None) => {}
                    Ok(Some(m)) => {
                        c02_violation(ctx, "consumption-mode", size, format!("{:?} k={}: a next() loop yields the pairs {:?} (each the reverse complement of its partner), but {}", show(seq), k, a, m), argv);
                        return;
                    }
                    Err(p) => {
                        c02_violation(ctx, "consumption-mode", size, format!("{:?} k={}: consuming the iterator in another way panicked: {}", show(seq), k, p), argv);
                        return;
                    }
                }
            }
            let mut ca: Vec<u64> = a.iter().map(|&(f, r)| f.min(r)).collect();
            let mut cb: Vec<u64> = b.iter().map(|&(f, r)| f.min(r)).collect();
            ca.sort();
            cb.sort();
            if ca != cb {
                c02_violation(ctx, "canonical-multiset", size, format!("{:?} k={}: canonical multisets differ", show(seq), k), argv);
            }
        }
    }
}

pub fn c02(ctx: &mut Ctx) {
    // (a) every code for small k
    let kmax = ctx.pick(10, 14);
    let mut sh = ctx.shard;
    let mut n = 0u64;
    for k in 1..=kmax {
        // shard by blocks of 1024 codes
        let total = model::pow4(k);
        let mut x: u128 = 0;
        while x < total {
            let hi = (x + 1024).min(total);
            if sh.mine() {
                for y in x..hi {
                    c02_code(ctx, y, k);
                    n += 1;
                }
            }
            x = hi;
        }
    }
    ctx.rep.count("cases.all_codes", n);
    ctx.rep.nontrivial += n;
    // (b) digit-pattern family for every k 1..=31
    let mut sh = ctx.shard;
    let mut nf = 0u64;
    let pre = ctx.pick(3, 4);
    let digs: Vec<Vec<u8>> = strings(&[0u8, 1, 2, 3], 0, pre);
    for k in (kmax + 1)..=31usize {
        let mut codes: Vec<u128> = vec![0, model::pow4(k) - 1];
        for p in &digs {
            for s in &digs {
                if p.len() + s.len() > k {
                    continue;
                }
                for f in 0u8..4 {
                    let mut d = p.clone();
                    d.extend(std::iter::repeat(f).take(k - p.len() - s.len()));
                    d.extend_from_slice(s);
                    codes.push(d.iter().fold(0u128, |a, &c| a * 4 + c as u128));
                }
            }
        }
        // palindromes (x == rc x) from half words, even k only
        if k % 2 == 0 {
            let h = (k / 2).min(ctx.pick(5, 6));
            for half in strings(&[0u8, 1, 2, 3], h, h) {
                let mut d: Vec<u8> = vec![0; k / 2 - h];
                d.extend_from_slice(&half);
                let mut full = d.clone();
                full.extend(d.iter().rev().map(|&c| 3 - c));
                codes.push(full.iter().fold(0u128, |a, &c| a * 4 + c as u128));
            }
        }
        codes.sort();
        codes.dedup();
        for c in codes {
            if sh.mine() {
                c02_code(ctx, c, k);
                nf += 1;
            }
        }
    }
    ctx.rep.count("cases.code_family", nf);
    ctx.rep.nontrivial += nf;
    // (c) stream symmetry
    let l = ctx.pick(8, 11);
    let mut sh = ctx.shard;
    let mut ns = 0u64;
    let mut todo: Vec<Vec<u8>> = Vec::new();
    for_each_string(S5, 0, l, |s| {
        if sh.mine() {
            todo.push(s.to_vec());
        }
    });
    for s in &todo {
        for k in 1..=5 {
            c02_stream(ctx, s, k);
            ns += 1;
            if s.len() >= k {
                ctx.rep.nontrivial += 1;
            }
        }
    }
    // large k stream symmetry on the family
    let ps = strings(S5, 0, 2);
    let units = strings(S4, 1, 2);
    let mut sh = ctx.shard;
    for k in 6..=31usize {
        for p in &ps {
            for u in &units {
                if !sh.mine() {
                    continue;
                }
                for n in [k, k + 1, 2 * k + 1] {
                    let mut s = p.clone();
                    s.extend_from_slice(&fill(u, n));
                    s.extend_from_slice(p);
                    c02_stream(ctx, &s, k);
                    ns += 1;
                    ctx.rep.nontrivial += 1;
                }
            }
        }
    }
    // every byte value as the odd byte in every clean context of length <= 2 (a byte that is not a base letter
    // is ambiguous on both strands)
    let ctxs = strings(S4, 0, 2);
    let mut sh = ctx.shard;
    for b in 4u16..=255 {
        for u in &ctxs {
            for v in &ctxs {
                if !sh.mine() {
                    continue;
                }
                let mut s = u.clone();
                s.push(b as u8);
                s.extend_from_slice(v);
                for k in 1..=2 {
                    c02_stream(ctx, &s, k);
                    ns += 1;
                    ctx.rep.nontrivial += 1;
                }
            }
        }
    }
    // several different ambiguous bytes in one input, also next to each other
    {
        let mut sh = ctx.shard;
        let mut todo: Vec<Vec<u8>> = Vec::new();
        for_each_string(b"ACTNRn-", 0, ctx.pick(5, 6), |s| {
            if sh.mine() && s.iter().filter(|b| !S4.contains(b)).count() >= 2 {
                todo.push(s.to_vec());
            }
        });
        for s in &todo {
            for k in 1..=3 {
                c02_stream(ctx, s, k);
                ns += 1;
                ctx.rep.nontrivial += 1;
            }
        }
    }
    {
        let mut sh = ctx.shard;
        for (i, s) in medium_inputs(ctx.pick(300, 3000)).iter().enumerate() {
            if sh.mine() {
                c02_stream(ctx, s, 1 + i % 31);
                ns += 1;
                ctx.rep.nontrivial += 1;
            }
        }
    }
    // long inputs
    let mut sh = ctx.shard;
    let mut longs: Vec<Vec<u8>> = vec![long_input(8193, 2), long_input(70_000, 4), clean_run_input()];
    for s in longs.drain(..) {
        for k in [1usize, 2, 15, 16, 31] {
            if sh.mine() {
                c02_stream(ctx, &s, k);
                ns += 1;
                ctx.rep.nontrivial += 1;
            }
        }
    }
    ctx.rep.count("cases.stream_symmetry", ns);
    // every pair of a stream is (code, reverse complement) also beyond 2^32 bases of one clean run (last shard; 4.3 GB)
    if ctx.shard.idx + 1 == ctx.shard.n {
        ctx.rep.evaluations += 1;
        ctx.rep.nontrivial += 1;
        ctx.rep.count("cases.run_beyond_2_pow_32", 1);
        if let Some((key, desc)) = four_gibibase_run(21) {
            c02_violation(ctx, &key, 1 << 40, desc, vec!["case".into(), "C02giant".into(), "21".into()]);
        }
    }
    if ctx.shard.is_first() {
        ctx.rep.sample(format!("code: rev_comp/numeric_to_kmer on every x < 4^k for k 1..={}, e.g. x=27 k=3 (text CGT, rc ACG=6)", kmax));
        ctx.rep.sample("code family: k=31, digits 13·(2 repeated)·30, 0, 4^31-1; palindromes from half-words".to_string());
        ctx.rep.sample(format!("stream: \"ACNGT\" vs its reverse complement \"ACNGT\"→\"ACNGT\" mirrored, k=2; all S5 strings of length <= {} x k 1..=5", l));
    }
}

// ------------------------------------------------------------------------------------------ C09 / C18

fn classify_runs(exp: &[(u64, usize, usize)], got: &[(u64, usize, usize)]) -> &'static str {
    if got.iter().any(|r| r.0 == u64::MAX) {
        let filtered: Vec<_> = got.iter().filter(|r| r.0 != u64::MAX).cloned().collect();
        if filtered == exp {
            return "sentinel-emitted";
        }
        return "sentinel-and-other";
    }
    if got.len() + 1 == exp.len() && got[..] == exp[..got.len()] {
        return "last-run-missing";
    }
    if got.len() == exp.len() {
        if got.iter().zip(exp).all(|(g, e)| g.0 == e.0) {
            return "run-boundaries";
        }
        return "run-values";
    }
    "run-count"
}

pub fn c09_case(ctx: &mut Ctx, family: &str, seq: &[u8], w: usize, m: usize) -> bool {
    ctx.journal
        .note(|| format!("C09 {} seq={} w={} m={}", family, hex(seq), w, m));
    ctx.rep.evaluations += 1;
    let exp = if w - m.min(w) >= 200 && seq.len() > 5000 { model::runs_wide(seq, w, m) } else { model::runs(seq, w, m) };
    let got = guard(|| MinimiserGenerator::new(seq, w, m).collect::<Vec<(u64, usize, usize)>>());
    let (key, what) = match &got {
        Err(p) => ("panic".to_string(), format!("panicked: {}", p)),
        Ok(g) if *g == exp => {
            let mut moved: Option<(String, String)> = None;
            for r in other_residues(seq, w + m) {
                let p = Placed::new(seq, r);
                let again = guard(|| MinimiserGenerator::new(p.get(), w, m).collect::<Vec<(u64, usize, usize)>>());
                ctx.rep.count("cases.start_address_variants", 1);
                if again.as_ref().ok() != Some(g) {
                    moved = Some(("start-address".to_string(), format!("the same bytes at a start address = {} (mod 8) give {:?}", r, again)));
                    break;
                }
            }
            if let Some(mv) = moved {
                mv
            } else if seq.len() <= 7 || (seq.len() > 1000 && m % 4 == 1) {
                let r = guard(|| consumption_modes(|| MinimiserGenerator::new(seq, w, m), g));
                match r {
                    Ok(None) => return true,
                    Ok(Some(msg)) => ("consumption-mode".to_string(), format!("a next() loop yields the expected runs, but {msg}")),
                    Err(p) => ("consumption-mode".to_string(), format!("consuming the iterator in another way panicked: {p}")),
                }
            } else {
                return true;
            }
        }
        Ok(g) => (classify_runs(&exp, g).to_string(), "runs differ".to_string()),
    };
    ctx.rep.violation(Violation {
        key,
        size: seq.len() * 4096 + w * 64 + m,
        desc: format!(
            "MinimiserGenerator::new({:?}, w={}, m={}) [{}]: {}; expected (minimiser,start,end) {:?}, got {:?}",
            show(seq), w, m, family, what, exp, got
        ),
        argv: vec!["case".into(), "C09".into(), hex(seq), w.to_string(), m.to_string()],
    });
    false
}

pub fn c18_case(ctx: &mut Ctx, family: &str, seq: &[u8], w: usize, m: usize) -> bool {
    ctx.journal
        .note(|| format!("C18 {} seq={} w={} m={}", family, hex(seq), w, m));
    ctx.rep.evaluations += 1;
    let got = guard(|| {
        (
            MinimiserGenerator::new(seq, w, m).collect::<Vec<(u64, usize, usize)>>(),
            KmerMinimiserGenerator::new(seq, w, m).collect::<Vec<(u64, usize, usize, Vec<u64>)>>(),
        )
    });
    // bytes 0x00-0x03 are left unspecified by C01 (pre-encoded bases): for inputs containing them the reference for the
    // w-mer stream is the core k-mer iterator itself rather than the model (the comparison with the plain minimiser
    // iterator is differential anyway)
    let raw = seq.iter().any(|&b| b < 4);
    let exp_stream: Vec<u64> = if raw {
        guard(|| KmerGenerator::new(seq, w).map(|(f, r)| f.min(r)).collect::<Vec<u64>>()).unwrap_or_default()
    } else {
        model::canon_stream(seq, w).into_iter().map(|c| c as u64).collect()
    };
    let (key, what) = match &got {
        Err(p) => ("panic".to_string(), format!("panicked: {}", p)),
        Ok((plain, with)) => {
            let proj: Vec<(u64, usize, usize)> = with.iter().map(|t| (t.0, t.1, t.2)).collect();
            let concat: Vec<u64> = with.iter().flat_map(|t| t.3.iter().cloned()).collect();
            if proj != *plain {
                ("runs-differ-from-plain".to_string(), format!("plain iterator gives {:?}", plain))
            } else if concat != exp_stream {
                let k = if concat.len() < exp_stream.len() {
                    "wmers-lost"
                } else if concat.len() > exp_stream.len() {
                    "wmers-extra"
                } else {
                    "wmers-wrong"
                };
                (k.to_string(), format!("concatenated k-mer lists {:?}, expected canonical w-mers {:?}", concat, exp_stream))
            } else if let Some(mv) = {
                let mut moved: Option<(String, String)> = None;
                for r in other_residues(seq, w + m) {
                    let p = Placed::new(seq, r);
                    let again = guard(|| KmerMinimiserGenerator::new(p.get(), w, m).collect::<Vec<(u64, usize, usize, Vec<u64>)>>());
                    ctx.rep.count("cases.start_address_variants", 1);
                    if again.as_ref().ok() != Some(with) {
                        moved = Some(("start-address".to_string(), format!("the same bytes at a start address = {} (mod 8) give {:?}", r, again)));
                        break;
                    }
                }
                moved
            } {
                mv
            } else if seq.len() <= 7 {
                match guard(|| consumption_modes(|| KmerMinimiserGenerator::new(seq, w, m), with)) {
                    Ok(None) => return true,
                    Ok(Some(msg)) => ("consumption-mode".to_string(), format!("a next() loop agrees with the plain iterator, but {msg}")),
                    Err(p) => ("consumption-mode".to_string(), format!("consuming the iterator in another way panicked: {p}")),
                }
            } else {
                return true;
            }
        }
    };
    ctx.rep.violation(Violation {
        key,
        size: seq.len() * 4096 + w * 64 + m,
        desc: format!(
            "KmerMinimiserGenerator::new({:?}, w={}, m={}) [{}]: {}; got {:?}",
            show(seq), w, m, family, what, got.as_ref().map(|g| &g.1)
        ),
        argv: vec!["case".into(), "C18".into(), hex(seq), w.to_string(), m.to_string()],
    });
    false
}

/// shared enumeration of the minimiser spaces; `which` = 9 or 18
pub fn minimiser_spaces(ctx: &mut Ctx, which: u32) {
    let run = |ctx: &mut Ctx, fam: &str, s: &[u8], w: usize, m: usize| -> bool {
        if which == 9 {
            c09_case(ctx, fam, s, w, m)
        } else {
            c18_case(ctx, fam, s, w, m)
        }
    };
    // (1) small scope: all S5 strings, all pairs m <= w <= 5
    let l = ctx.pick(9, 13);
    let mut pairs = Vec::new();
    for w in 1..=5usize {
        for m in 1..=w {
            pairs.push((w, m));
        }
    }
    let mut sh = ctx.shard;
    let mut todo: Vec<Vec<u8>> = Vec::new();
    let mut n_small = 0u64;
    let (mut c_tie, mut c_lastchange, mut c_trailing) = (0u64, 0u64, 0u64);
    let mut do_block = |ctx: &mut Ctx, todo: &mut Vec<Vec<u8>>| {
        for s in todo.drain(..) {
            for &(w, m) in &pairs {
                if ctx.thorough() && ((w == 5 && s.len() > 10) || (w == 4 && s.len() > 11) || (w == 3 && s.len() > 12)) {
                    continue;
                }
                run(ctx, "small-scope", &s, w, m);
                n_small += 1;
                if s.len() >= w {
                    ctx.rep.nontrivial += 1;
                    // class counters (non-vacuity of the interesting branches)
                    let r = model::runs(&s, w, m);
                    if let Some(last) = r.last() {
                        if last.2 == s.len() && last.2 - last.1 == w && r.len() >= 2 && r[r.len() - 2].2 + 1 == last.2 {
                            c_lastchange += 1;
                        }
                    }
                    // trailing clean stretch shorter than w but at least m
                    let tail = s.iter().rev().take_while(|&&b| model::class(b).is_some()).count();
                    if tail < w && tail >= m {
                        c_trailing += 1;
                    }
                    // tie: some window has two equal canonical m-mers at its minimum
                    if w > m {
                        let st = model::canon_stream(&s[..w.min(s.len())], m);
                        if st.len() == w - m + 1 {
                            let mn = st.iter().min().unwrap();
                            if st.iter().filter(|x| *x == mn).count() >= 2 {
                                c_tie += 1;
                            }
                        }
                    }
                }
            }
        }
    };
    for_each_string(S5, 0, l, |s| {
        if sh.mine() {
            todo.push(s.to_vec());
        }
        if todo.len() >= 4096 {
            do_block(ctx, &mut todo);
        }
    });
    do_block(ctx, &mut todo);
    ctx.rep.count("cases.small_scope", n_small);
    ctx.rep.count("class.tie_in_first_window", c_tie);
    ctx.rep.count("class.change_at_last_base", c_lastchange);
    ctx.rep.count("class.trailing_stretch_shorter_than_w", c_trailing);

    // (1b) several different ambiguous bytes in one input, also next to each other
    {
        let mut sh = ctx.shard;
        let mut todo: Vec<Vec<u8>> = Vec::new();
        for_each_string(b"ATNRn-", 0, ctx.pick(6, 7), |s| {
            if sh.mine() && s.iter().filter(|b| !S4.contains(b)).count() >= 2 {
                todo.push(s.to_vec());
            }
        });
        let mut n2 = 0u64;
        for s in &todo {
            for (w, m) in [(1usize, 1usize), (2, 1), (2, 2), (3, 1), (3, 2), (3, 3)] {
                run(ctx, "mixed-ambiguous", s, w, m);
                n2 += 1;
                ctx.rep.nontrivial += 1;
            }
        }
        ctx.rep.count("cases.mixed_ambiguous", n2);
    }

    // (2) transition cover: states = clean suffixes of length <= w
    let ws: &[usize] = ctx.pick(&[6, 7][..], &[6, 7, 8][..]);
    let d = ctx.pick(2, 3);
    let conts = strings(S5, 0, d);
    let prefixes: [&[u8]; 3] = [b"", b"N", b"AN"];
    let mut sh = ctx.shard;
    let mut states = 0u64;
    let mut traces = 0u64;
    for &w in ws {
        let sts = strings(S4, 0, w);
        states += sts.len() as u64;
        for st in &sts {
            if !sh.mine() {
                continue;
            }
            for p in prefixes.iter() {
                for &c in S5 {
                    for z in &conts {
                        let mut s = p.to_vec();
                        s.extend_from_slice(st);
                        s.push(c);
                        s.extend_from_slice(z);
                        for m in 1..=w {
                            run(ctx, "transition-cover", &s, w, m);
                            traces += 1;
                            if s.len() >= w {
                                ctx.rep.nontrivial += 1;
                            }
                        }
                    }
                }
            }
        }
    }
    ctx.rep.set_max("model_states_max", states);
    ctx.rep.set_max("model_transitions_max", states * 5);
    ctx.rep.count("traces_validated", traces);

    // (3) large-parameter family
    let ps = strings(S5, 0, 2);
    let units = strings(S4, 1, ctx.pick(2, 3));
    let mut sh = ctx.shard;
    let mut n_fam = 0u64;
    let wmax = if which == 18 { 31 } else { usize::MAX };
    for m in 1..=31usize {
        for dw in [0usize, 1, 2, 7, 60] {
            let w = m + dw;
            if w > wmax {
                continue;
            }
            let lens = [w.saturating_sub(1), w, w + 1, w + 2, 2 * w + 1];
            for p in &ps {
                for s2 in &ps {
                    for u in &units {
                        if !sh.mine() {
                            continue;
                        }
                        for &n in &lens {
                            let mut s = p.clone();
                            s.extend_from_slice(&fill(u, n));
                            s.extend_from_slice(s2);
                            run(ctx, "large-parameter-family", &s, w, m);
                            n_fam += 1;
                            ctx.rep.nontrivial += 1;
                        }
                    }
                }
            }
            // one embedded N at every offset of a w+3 long periodic string
            for u in &units {
                let base = fill(u, w + 3);
                for off in 0..base.len() {
                    if !sh.mine() {
                        continue;
                    }
                    let mut s = base.clone();
                    s[off] = b'N';
                    run(ctx, "embedded-N", &s, w, m);
                    n_fam += 1;
                    ctx.rep.nontrivial += 1;
                }
            }
        }
    }
    ctx.rep.count("cases.large_parameter_family", n_fam);
    // long inputs
    let mut sh = ctx.shard;
    let mut n_long = 0u64;
    let mut longs: Vec<Vec<u8>> = [(4097usize, 1u64), (8193, 2), (20_000, 3), (70_000, 4)].iter().map(|&(len, seed)| long_input(len, seed)).collect();
    longs.push(clean_run_input());
    for (i, s) in medium_inputs(ctx.pick(300, 3000)).iter().enumerate() {
        let m = 1 + i % 31;
        for w in [m, m + 1 + i % 5, m + 20 + i % 40] {
            if w <= wmax && sh.mine() {
                run(ctx, "medium-random", s, w, m);
                n_long += 1;
                ctx.rep.nontrivial += 1;
            }
        }
    }
    for (i, s) in two_runs_islands().iter().enumerate() {
        for (w, m) in [(1usize, 1usize), (3, 2), (1 + i % 9, 1 + i % 5)] {
            if w >= m && w <= wmax && sh.mine() {
                run(ctx, "two-runs-island", s, w, m);
            }
        }
    }
    for gap in [1usize, 7, 8, 9, 15, 16, 17, 31, 32, 33, 63, 64, 65, 127, 128, 129, 255, 256, 257, 300] {
        for offset in [0usize, 1, 5, 31, 32, 33, 63, 64, 65, 70, 128] {
            if !sh.mine() {
                continue;
            }
            let mut s = long_input(offset + 3, 7)[..offset].to_vec();
            s.iter_mut().for_each(|b| {
                if *b == b'N' {
                    *b = b'C'
                }
            });
            s.extend(std::iter::repeat(b'N').take(gap));
            s.extend_from_slice(b"ACGTTGCAAGCTTAGGCATCGATCGGATTACAGATTACACCAGTAGCTAACGGTCAGTCAGGTCAAACCGGTTAC");
            for (w, m) in [(1usize, 1usize), (5, 3), (12, 7), (40, 28)] {
                if w <= wmax {
                    run(ctx, "ambiguous-run", &s, w, m);
                    n_long += 1;
                    ctx.rep.nontrivial += 1;
                }
            }
        }
    }
    for (i, &len) in THRESHOLD_LENGTHS.iter().enumerate() {
        let s = long_input(len, 60 + i as u64);
        for (w, m) in [(1usize, 1usize), (5, 3), (31, 7), (40, 28)] {
            if len > 110_000 && w > 5 {
                continue;
            }
            if w <= wmax && sh.mine() {
                run(ctx, "threshold-length", &s, w, m);
                n_long += 1;
                ctx.rep.nontrivial += 1;
            }
        }
    }
    // the window itself at the width boundaries: 2^8, 2^16 (one less, one more), 100 000 and 2^17 m-mer slots per window
    if which == 9 {
        // the wide-window model against the defining one, on every short input (machinery check, not a verdict)
        if ctx.shard.is_first() {
            for_each_string(S5, 0, 7, |t| {
                for (w, m) in [(1usize, 1usize), (2, 1), (3, 2), (4, 2), (5, 3), (5, 1), (7, 7)] {
                    if model::runs(t, w, m) != model::runs_wide(t, w, m) {
                        eprintln!("MACHINERY: the two minimiser models disagree on {:?} w={} m={}", show(t), w, m);
                        std::process::exit(2);
                    }
                }
            });
        }
        let mut clean = long_input(800_000, 17);
        clean.iter_mut().for_each(|b| {
            if !b"ACGT".contains(b) {
                *b = b'G'
            }
        });
        for slots in [255usize, 256, 257, 65_535, 65_536, 65_537, 100_000, 131_072] {
            for m in [11usize, 24, 25] {
                let w = slots + m - 1;
                if w <= wmax && sh.mine() {
                    // long enough for the minimiser to leave the window several times (each time the whole window is rescanned)
                    let len = if slots > 1000 { w + 600_000 } else { w + 3000 };
                    run(ctx, "wide-window", &clean[..len], w, m);
                    n_long += 1;
                    ctx.rep.nontrivial += 1;
                }
            }
        }
        // rings of a few hundred to a few thousand m-mers (every remainder modulo 8 around 2^8, then the powers of two to
        // 2^12, one less, one more), on several texts of 20 000 bases: the minimiser leaves the window dozens of times per text
        {
            let mut ring_sizes: Vec<usize> = (250..=265).collect();
            ring_sizes.extend([300usize, 511, 512, 513, 701, 1023, 1024, 1025, 2047, 2048, 2049, 4095, 4096, 4097]);
            let texts: Vec<Vec<u8>> = (0..4u64)
                .map(|t| long_input(25_000, 900 + t).iter().map(|&b| if b"ACGT".contains(&b) { b } else { b"ACGT"[(b % 4) as usize] }).collect())
                .collect();
            for slots in ring_sizes {
                for m in [7usize, 15, 28] {
                    let w = slots + m - 1;
                    for t in &texts {
                        if w <= wmax && sh.mine() {
                            run(ctx, "medium-ring", &t[..w + 20_000], w, m);
                            n_long += 1;
                            ctx.rep.nontrivial += 1;
                        }
                    }
                }
            }
        }
        // the same with a gap of ambiguous bytes inside
        let mut gapped = clean[..300_000].to_vec();
        gapped[150_000] = b'N';
        if sh.mine() {
            run(ctx, "wide-window", &gapped, 65_546, 11);
        }
    }
    // a stretch of one base, as long as the minimiser, the window, a little more, embedded between other bases (every
    // ordered pair of neighbour base and stretch base): shortcuts for low-complexity stretches meet their boundary here
    for w in [5usize, 16, 30, 31, 32, 40, 91] {
        if w > wmax {
            continue;
        }
        for m in [1usize, 10.min(w), (w - 1).min(31), w.min(31)] {
            if m == 0 {
                continue;
            }
            for &x in b"ACGT" {
                for &y in b"ACGT" {
                    if x == y || !sh.mine() {
                        continue;
                    }
                    for len in [m, w - 1, w, w + 1, w + 9, 2 * w + 3] {
                        let mut t = b"ACGTTGCAAG".to_vec();
                        t.push(x);
                        t.extend(std::iter::repeat(y).take(len));
                        t.extend_from_slice(b"TGCAACGGTCATGCATGGCA");
                        t.push(x);
                        t.extend(std::iter::repeat(y).take(len));
                        run(ctx, "embedded-stretch", &t, w, m);
                        n_long += 1;
                        ctx.rep.nontrivial += 1;
                    }
                }
            }
        }
    }
    // one minimiser over more than 2^22 (thorough: 2^24) consecutive windows: the widths a run length or a per-run
    // list could be narrowed to lie far beyond what the other inputs reach
    {
        let n = (1usize << 22) + 5003;
        let mut clean = long_input(n, 91);
        clean.iter_mut().for_each(|b| {
            if !b"ACGT".contains(b) {
                *b = b'A'
            }
        });
        let mut giants: Vec<(Vec<u8>, usize, usize)> = vec![
            (vec![b'A'; n], 21, 11),
            (clean, 31, 1),
            (b"ACGTT".iter().cycle().take(n).cloned().collect(), 25, 12),
        ];
        if ctx.thorough() {
            giants.push((vec![b'T'; (1usize << 24) + 77], 21, 11));
        }
        for (s, w, m) in giants {
            if w <= wmax && sh.mine() {
                run(ctx, "multi-million-window-run", &s, w, m);
                n_long += 1;
                ctx.rep.nontrivial += 1;
            }
        }
    }
    for s in longs {
        for (w, m) in [(1usize, 1usize), (2, 1), (3, 2), (5, 3), (8, 5), (12, 7), (16, 16), (31, 7), (31, 28), (40, 10), (91, 31), (300, 15)] {
            if w > wmax {
                continue;
            }
            if sh.mine() {
                run(ctx, "long-input", &s, w, m);
                n_long += 1;
                ctx.rep.nontrivial += 1;
            }
        }
    }
    ctx.rep.count("cases.long_inputs", n_long);
    if ctx.shard.is_first() {
        ctx.rep.sample("small-scope: \"CCCCA\" w=4 m=2 -> runs [(CC,0,4),(CA,1,5)]".to_string());
        ctx.rep.sample("small-scope: \"ACG\" w=4 m=2 -> no run (shorter than w)".to_string());
        ctx.rep.sample(format!("transition-cover: prefix \"N\" + state \"ACGTAC\" + 'G' + \"NA\", w=7, m=1..=7 (D={})", d));
        ctx.rep.sample("large-parameter-family: \"NA\" + (\"AC\" x 91 bases) + \"T\", w=91, m=31".to_string());
        ctx.rep.notes.push(format!(
            "minimiser spaces: S5^(0..={}) x 15 pairs m<=w<=5; transition cover w in {:?} x all m, prefixes (empty,N,AN), D={}; family m 1..=31 x w-m in (0,1,2,7,60){}",
            l, ws, d, if which == 18 { " restricted to w<=31" } else { "" }
        ));
    }
}

pub fn c09(ctx: &mut Ctx) {
    minimiser_spaces(ctx, 9)
}
pub fn c18(ctx: &mut Ctx) {
    minimiser_spaces(ctx, 18);
    // every byte value 0..=255 in short clean contexts: both iterators must classify every byte alike
    let ctxs = strings(S4, 0, 3);
    let mut sh = ctx.shard;
    let mut n = 0u64;
    for b in 0u16..=255 {
        let b = b as u8;
        for u in &ctxs {
            for v in &ctxs {
                if !sh.mine() {
                    continue;
                }
                let mut s = u.clone();
                s.push(b);
                s.extend_from_slice(v);
                for (w, m) in [(1usize, 1usize), (2, 1), (2, 2), (3, 2)] {
                    c18_case(ctx, "byte-class", &s, w, m);
                    n += 1;
                    ctx.rep.nontrivial += 1;
                }
            }
        }
    }
    ctx.rep.count("cases.byte_class", n);
}

/// re-execution of one recorded case
pub fn replay(ctx: &mut Ctx, args: &[String]) {
    match args[0].as_str() {
        "C01" => {
            c01_case(ctx, "replay", &crate::out::unhex(&args[1]), args[2].parse().unwrap());
        }
        "C01giant" | "C02giant" => {
            ctx.rep.evaluations += 1;
            if let Some((key, desc)) = four_gibibase_run(args[1].parse().unwrap()) {
                ctx.rep.violation(Violation { key, size: 1 << 40, desc, argv: vec!["case".into(), args[0].clone(), args[1].clone()] });
            }
        }
        "C02code" => c02_code(ctx, args[1].parse().unwrap(), args[2].parse().unwrap()),
        "C02stream" => c02_stream(ctx, &crate::out::unhex(&args[1]), args[2].parse().unwrap()),
        "C09" => {
            c09_case(ctx, "replay", &crate::out::unhex(&args[1]), args[2].parse().unwrap(), args[3].parse().unwrap());
        }
        "C18" => {
            c18_case(ctx, "replay", &crate::out::unhex(&args[1]), args[2].parse().unwrap(), args[3].parse().unwrap());
        }
        _ => panic!("unknown case kind"),
    }
}
