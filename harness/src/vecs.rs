//! C03, C04, C11, C12: column index / header, oligo vectors, whole-sequence CGR, k-mer CGR.
use crate::ctx::{guard, Ctx};
use crate::enumr::{fill, for_each_string, strings, S10, S4, S5};
use crate::model;
use crate::out::{hex, show, unhex, Violation};
use composition::cgr::CgrComputer;
use composition::oligo::OligoComputer;
use composition::oligocgr::OligoCgrComputer;
use kmer::kmer::KmerGenerator;

/// prefixes of a record pool whose output (header + the first n rows) lands exactly on a multiple of a page or of a
/// write buffer (first two hits per size), with both neighbours
pub fn boundary_prefixes(row_lens: &[usize], header: usize) -> Vec<usize> {
    let mut out: Vec<usize> = Vec::new();
    for b in [4096usize, 8192, 65_536, 1 << 20] {
        let (mut sum, mut found) = (header, 0);
        for (i, l) in row_lens.iter().enumerate() {
            sum += l;
            if sum % b == 0 {
                out.extend([i, i + 1, (i + 2).min(row_lens.len())]);
                found += 1;
                if found == 2 {
                    break;
                }
            }
        }
    }
    out.sort();
    out.dedup();
    out
}

/// Record ids are part of the input: a third of the record lists (chosen by their content, so that a replay
/// writes the same file) give every record the same id, a third use two ids alternately, the rest unique ids.
pub fn id_policy(records: &[Vec<u8>]) -> usize {
    (records.len() + records.iter().map(|r| r.len()).sum::<usize>()) % 3
}

pub fn rec_id_with(policy: usize, i: usize) -> String {
    match policy {
        0 => format!("r{}", i),
        1 => "same".to_string(),
        _ => format!("r{}", i % 2),
    }
}

/// Neighbouring records related in every way a "same as the one before?" shortcut could confuse: for every ordered
/// pair (r1, r2) of relations the list holds b, r1(b), r2(r1(b)) for a fresh b, and runs of up to five identical records.
pub fn related_records() -> Vec<Vec<u8>> {
    type Rel = fn(&[u8]) -> Vec<u8>;
    let rels: [Rel; 9] = [
        |b| b.to_vec(),
        |b| b[..b.len() * 2 / 3].to_vec(),
        |b| [b, &b"GATTC"[..]].concat(),
        |b| b[b.len() / 3..].to_vec(),
        |b| model::rc_text(b),
        |b| b.to_ascii_lowercase(),
        |b| b.iter().map(|&c| if c == b'T' { b'U' } else { c }).collect(),
        |_| Vec::new(),
        |b| b[..b.len().min(2)].to_vec(),
    ];
    let mut out: Vec<Vec<u8>> = Vec::new();
    let mut x: u64 = 77;
    for r1 in rels.iter() {
        for r2 in rels.iter() {
            let len = 9 + out.len() % 7;
            let b: Vec<u8> = (0..len)
                .map(|_| {
                    x = x.wrapping_mul(6364136223846793005).wrapping_add(1442695040888963407);
                    b"ACGT"[((x >> 40) % 4) as usize]
                })
                .collect();
            let b1 = r1(&b);
            let b2 = r2(&b1);
            out.push(b);
            out.push(b1);
            out.push(b2);
        }
    }
    for run in [4usize, 5] {
        for _ in 0..run {
            out.push(b"GGATCCAAGT".to_vec());
        }
        out.push(b"A".repeat(7 + run));
        out.push(b"A".repeat(3));
        out.push(b"A".repeat(12));
    }
    out
}

/// (the lengths are chosen so that `rec_id` gives all of them the same id)
/// records that repeat: identical neighbours, the reverse complement and the lower-case form of the previous
/// record, and a record that comes back later
pub fn repeating_records() -> Vec<Vec<u8>> {
    let x = b"ACGGTCAAGT".to_vec();
    let y = b"TTGACNGGATATAT".to_vec();
    let mut v = vec![x.clone(), x.clone(), model::rc_text(&x), x.to_ascii_lowercase(), y.clone(), x.clone(), y.clone(), y, b"AAAAAAAAAAA".to_vec(), b"TTTTTTTTTT".to_vec(), b"ACGTACGTACGT".to_vec(), b"ACGTACGTACGT".to_vec()];
    v.extend(related_records());
    // pad so that every record gets the same id (see rec_id)
    while (v.len() + v.iter().map(|r| r.len()).sum::<usize>()) % 3 != 1 {
        v.last_mut().unwrap().push(b'C');
    }
    v
}

pub fn write_fasta(path: &str, records: &[Vec<u8>]) {
    let mut data: Vec<u8> = Vec::new();
    let policy = id_policy(records);
    for (i, r) in records.iter().enumerate() {
        data.extend_from_slice(format!(">{}\n", rec_id_with(policy, i)).as_bytes());
        data.extend_from_slice(r);
        data.push(b'\n');
    }
    std::fs::write(path, data).expect("write fasta");
    side_cars(path);
}

/// files that tools of the trade leave next to a sequence file (samtools faidx / bgzip indexes), describing another
/// version of it and not older than it: nothing a run computes may come from them
pub fn side_cars(path: &str) {
    let _ = std::fs::write(format!("{path}.fai"), b"r0\t17\t4\t17\t18\nzz\t5\t30\t5\t6\n");
    let _ = std::fs::write(format!("{path}.gzi"), [1u8, 0, 0, 0, 0, 0, 0, 0, 16, 0, 0, 0, 0, 0, 0, 0, 16, 0, 0, 0, 0, 0, 0, 0]);
}

fn viol(ctx: &mut Ctx, key: &str, size: usize, desc: String, argv: Vec<String>) {
    ctx.rep.violation(Violation {
        key: key.to_string(),
        size,
        desc,
        argv,
    });
}

// ------------------------------------------------------------------------------------------ C03

pub fn c03_k(ctx: &mut Ctx, k: usize) {
    ctx.journal.note(|| format!("C03 k={}", k));
    let argv = vec!["case".to_string(), "C03".to_string(), k.to_string()];
    let index = model::canon_index(k);
    let r = guard(|| KmerGenerator::kmer_pos_maps(k));
    ctx.rep.evaluations += 1;
    let (pos_map, pos_kmer, count) = match r {
        Err(p) => return viol(ctx, "panic", k, format!("kmer_pos_maps({k}) panicked: {p}"), argv),
        Ok(t) => t,
    };
    let closed = model::column_count_closed_form(k);
    if count as u128 != closed || index.len() as u128 != closed {
        return viol(ctx, "column-count", k, format!("kmer_pos_maps({k}): count {count}, closed form {closed}, model {}", index.len()), argv);
    }
    if pos_map.len() as u128 != model::pow4(k) {
        return viol(ctx, "map-size", k, format!("kmer_pos_maps({k}): forward map has {} entries, expected 4^k", pos_map.len()), argv);
    }
    if pos_kmer.len() != count {
        return viol(ctx, "inverse-size", k, format!("kmer_pos_maps({k}): inverse map has {} entries, expected {count}", pos_kmer.len()), argv);
    }
    for (rank, &code) in index.iter().enumerate() {
        ctx.rep.evaluations += 1;
        if pos_map[code as usize] != rank {
            return viol(ctx, "rank", k, format!("k={k}: canonical k-mer {} (code {code}) maps to column {}, expected rank {rank}", show(&model::text_of(code, k)), pos_map[code as usize]), argv);
        }
        match pos_kmer.get(&rank) {
            Some(&c) if c as u128 == code => {}
            other => {
                return viol(ctx, "inverse", k, format!("k={k}: column {rank} maps back to {:?}, expected code {code}", other), argv);
            }
        }
    }
    ctx.rep.count("codes_checked", model::pow4(k) as u64);
    ctx.rep.nontrivial += index.len() as u64;
    // the columns of the composition vector itself, for every canonical k-mer and both of its strands: record j holds
    // (separated by an ambiguous byte) exactly the k-mers whose rank has bit j set, the last record all of them, so
    // the counts of column r over the records spell r in binary if and only if every k-mer lands in its own column
    if k <= 10 {
        let mut raw = OligoComputer::new("-".into(), "-".into(), k);
        raw.set_norm(false);
        let n = index.len();
        let nbits = (usize::BITS - (n - 1).max(1).leading_zeros()) as usize;
        for strand in 0..2 {
            for j in 0..=nbits {
                let member = |r: usize| j == nbits || (r >> j) & 1 == 1;
                let mut rec: Vec<u8> = Vec::with_capacity(n * (k + 1) / 2 + 16);
                for (r, &code) in index.iter().enumerate() {
                    if member(r) {
                        let t = model::text_of(code, k);
                        rec.extend_from_slice(&if strand == 0 { t } else { model::rc_text(&t) });
                        rec.push(b'N');
                    }
                }
                ctx.rep.evaluations += 1;
                let v = match guard(|| raw.verif_vectorise_one(&rec)) {
                    Ok(v) => v,
                    Err(p) => return viol(ctx, "panic", k, format!("vectorise_one k={k} panicked: {p}"), argv),
                };
                if v.len() != n {
                    return viol(ctx, "vector-length", k, format!("k={k}: the composition vector has {} columns, expected {n}", v.len()), argv);
                }
                if let Some(r) = (0..n).find(|&r| v[r] != if member(r) { 1.0 } else { 0.0 }) {
                    return viol(ctx, "vector-column", k, format!("k={k}: a record holding once each {}canonical k-mer whose rank has bit {j} set{}: column {r} (k-mer {}) counts {}, expected {}", if strand == 0 { "" } else { "reverse complement of a " }, if j == nbits { " (all of them)" } else { "" }, show(&model::text_of(index[r], k)), v[r], member(r) as u8), argv);
                }
                ctx.rep.nontrivial += 1;
            }
        }
        ctx.rep.count("vector_column_records", 2 * (nbits as u64 + 1));
    }
    // header through the library
    if k <= 10 {
        let names: Vec<String> = index.iter().map(|&c| String::from_utf8(model::text_of(c, k)).unwrap()).collect();
        let got = guard(|| OligoComputer::new("-".into(), "-".into(), k).verif_get_header());
        ctx.rep.evaluations += 1;
        match got {
            Err(p) => return viol(ctx, "panic", k, format!("get_header k={k} panicked: {p}"), argv),
            Ok(h) if h != names => {
                return viol(ctx, "header", k, format!("k={k}: header {:?}... expected {:?}...", &h[..h.len().min(8)], &names[..names.len().min(8)]), argv)
            }
            _ => {}
        }
        ctx.rep.nontrivial += 1;
        // header line of the output file on both writer paths, three delimiters
        if k <= 6 {
            let inp = format!("{}/c03_in.fa", ctx.scratch);
            let outp = format!("{}/c03_out.txt", ctx.scratch);
            write_fasta(&inp, &[b"ACGTTGCA".to_vec()]);
            for delim in [",", "\t", " "] {
                for (mmap, threads) in [(true, 1usize), (true, 2), (false, 1), (false, 2), (false, 5)] {
                    ctx.rep.evaluations += 1;
                    let r = guard(|| {
                        let mut oc = OligoComputer::new(inp.clone(), outp.clone(), k);
                        oc.set_threads(threads);
                        oc.set_header(true);
                        oc.set_delim(delim.to_string());
                        oc.set_norm(mmap);
                        if mmap {
                            oc.verif_vectorise_mmap()
                        } else {
                            oc.verif_vectorise_batch()
                        }
                    });
                    let path_name = if mmap { format!("mmap writer, {threads} thread(s)") } else { format!("batch writer, {threads} thread(s)") };
                    match r {
                        Err(p) => return viol(ctx, "panic", k, format!("header file k={k} {path_name} panicked: {p}"), argv),
                        Ok(Err(e)) => return viol(ctx, "error", k, format!("header file k={k} {path_name}: {e}"), argv),
                        Ok(Ok(())) => {}
                    }
                    let text = std::fs::read_to_string(&outp).unwrap_or_default();
                    let first = text.lines().next().unwrap_or("");
                    let cols: Vec<&str> = first.split(delim).collect();
                    if cols != names.iter().map(|s| s.as_str()).collect::<Vec<_>>() || text.lines().count() != 2 {
                        return viol(ctx, "header-line", k, format!("k={k} delim {:?} {path_name}: first line {:?}, {} lines", delim, &first[..first.len().min(80)], text.lines().count()), argv);
                    }
                    ctx.rep.nontrivial += 1;
                }
            }
        }
    }
}

/// kmer_pos_maps is a function of k alone: every short sequence of calls with different k in ONE process must give,
/// at every position, what a single call gives
fn c03_call_sequences(ctx: &mut Ctx) {
    let mut sh = ctx.shard;
    let kmax = 5usize;
    let index: Vec<Vec<u128>> = (0..=kmax).map(|k| if k == 0 { vec![] } else { model::canon_index(k) }).collect();
    let mut n = 0u64;
    for a in 1..=kmax {
        for b in 1..=kmax {
            for c in 1..=kmax {
                for d in 1..=kmax {
                    if !sh.mine() {
                        continue;
                    }
                    let seq = [a, b, c, d, a, b];
                    ctx.journal.note(|| format!("C03 call sequence {:?}", seq));
                    ctx.rep.evaluations += 1;
                    n += 1;
                    for (i, &k) in seq.iter().enumerate() {
                        let r = guard(|| KmerGenerator::kmer_pos_maps(k));
                        let ok = match &r {
                            Ok((pm, pk, count)) => {
                                *count == index[k].len() && pm.len() as u128 == model::pow4(k) && pk.len() == *count
                                    && index[k].iter().enumerate().all(|(rank, &code)| pm[code as usize] == rank && pk.get(&rank) == Some(&(code as u64)))
                            }
                            Err(_) => false,
                        };
                        if !ok {
                            viol(ctx, "call-sequence", i, format!("kmer_pos_maps called with k = {:?} in one process: call {} (k={}) does not return the maps of k={} (column count {:?})", seq, i, k, k, r.as_ref().map(|t| t.2).ok()), vec!["case".into(), "C03seq".into(), seq.iter().map(|k| k.to_string()).collect::<Vec<_>>().join(",")]);
                            return;
                        }
                    }
                    ctx.rep.nontrivial += 1;
                }
            }
        }
    }
    ctx.rep.count("cases.call_sequences", n);
}

pub fn c03(ctx: &mut Ctx) {
    c03_call_sequences(ctx);
    let mut sh = ctx.shard;
    // largest k first so that the long ones start early on separate shards
    for k in (1..=ctx.pick(10usize, 12)).rev() {
        if sh.mine() {
            c03_k(ctx, k);
        }
    }
    if ctx.shard.is_first() {
        ctx.rep.sample("k=2: canonical codes [AA,AC,AG,AT,CA,CC,CG,GA,GC,TA] -> ranks 0..9; header = those texts in order".to_string());
        ctx.rep.notes.push("C03 library part: every k 1..=10, all 4^k codes; header via get_header for k<=8 and via both writer paths x 3 delimiters for k<=6".to_string());
    }
}

// ------------------------------------------------------------------------------------------ C04

struct OligoSet {
    k: usize,
    index: Vec<u128>,
    norm: OligoComputer,
    raw: OligoComputer,
}

fn oligo_set(k: usize) -> OligoSet {
    let norm = OligoComputer::new("-".into(), "-".into(), k);
    let mut raw = OligoComputer::new("-".into(), "-".into(), k);
    raw.set_norm(false);
    OligoSet {
        k,
        index: model::canon_index(k),
        norm,
        raw,
    }
}

fn lower(seq: &[u8]) -> Vec<u8> {
    seq.iter().map(|b| b.to_ascii_lowercase()).collect()
}
fn u_for_t(seq: &[u8]) -> Vec<u8> {
    seq.iter()
        .map(|&b| match b {
            b'T' => b'U',
            b't' => b'u',
            o => o,
        })
        .collect()
}

fn c04_one(ctx: &mut Ctx, set: &OligoSet, family: &str, seq: &[u8], invariances: bool) {
    c04_one_as(ctx, set, family, seq, invariances, None)
}

/// `huge`: (unit, length) when the record is `fill(unit, length)` and too long to be written out in messages
fn c04_one_as(ctx: &mut Ctx, set: &OligoSet, family: &str, seq: &[u8], invariances: bool, huge: Option<(&[u8], usize)>) {
    let k = set.k;
    let disp = |x: &[u8]| match huge {
        Some((u, n)) if x.len() == n => format!("<{:?} repeated to {} bases{}>", show(u), n, if x == seq { "" } else { ", variant" }),
        _ => show(x),
    };
    ctx.journal
        .note(|| format!("C04 {} seq={} k={}", family, if huge.is_some() { disp(seq) } else { hex(seq) }, k));
    let argv = match huge {
        Some((u, n)) => vec!["case".to_string(), "C04huge".to_string(), hex(u), n.to_string(), k.to_string()],
        None => vec!["case".to_string(), "C04".to_string(), hex(seq), k.to_string()],
    };
    let size = seq.len() * 64 + k;
    let (cnt, tot) = model::oligo(seq, k, &set.index);
    ctx.rep.evaluations += 2;
    let r = guard(|| (set.norm.verif_vectorise_one(seq), set.raw.verif_vectorise_one(seq)));
    let (vn, vr) = match r {
        Err(p) => return viol(ctx, "panic", size, format!("vectorise_one({:?}, k={k}) panicked: {p}", disp(seq)), argv),
        Ok(t) => t,
    };
    if vn.len() != set.index.len() || vr.len() != set.index.len() {
        return viol(ctx, "row-length", size, format!("vectorise_one({:?}, k={k}): {} / {} values, expected {}", disp(seq), vn.len(), vr.len(), set.index.len()), argv);
    }
    for i in 0..cnt.len() {
        if vr[i] != cnt[i] as f64 {
            return viol(ctx, "raw-count", size, format!("vectorise_one({:?}, k={k}) counts mode: column {i} ({}) = {}, expected {}", disp(seq), show(&model::text_of(set.index[i], k)), vr[i], cnt[i]), argv);
        }
        if !model::close_to_ratio(vn[i], cnt[i], tot) {
            return viol(ctx, "normalised-value", size, format!("vectorise_one({:?}, k={k}) normalised: column {i} ({}) = {}, expected {}/{}", disp(seq), show(&model::text_of(set.index[i], k)), vn[i], cnt[i], tot), argv);
        }
    }
    if invariances {
        for (name, variant) in [("reverse-complement", model::rc_text(seq)), ("lower-case", lower(seq)), ("U-for-T", u_for_t(seq))] {
            ctx.rep.evaluations += 1;
            let r = guard(|| (set.norm.verif_vectorise_one(&variant), set.raw.verif_vectorise_one(&variant)));
            match r {
                Err(p) => return viol(ctx, "panic", size, format!("vectorise_one({:?}, k={k}) panicked: {p}", disp(&variant)), argv),
                Ok((a, b)) => {
                    if a != vn || b != vr {
                        return viol(ctx, "invariance", size, format!("vectorise_one k={k}: row of {:?} differs from row of its {name} variant {:?}", disp(seq), disp(&variant)), argv);
                    }
                }
            }
        }
    }
}

/// rows of an output file parsed as f64
fn parse_rows(text: &str, delim: &str) -> Result<Vec<Vec<f64>>, String> {
    let mut rows = Vec::new();
    for (i, line) in text.split('\n').enumerate() {
        if line.is_empty() {
            continue;
        }
        let mut row = Vec::new();
        for tok in line.split(delim) {
            row.push(tok.parse::<f64>().map_err(|_| format!("line {}: token {:?} is not a number", i, tok))?);
        }
        rows.push(row);
    }
    Ok(rows)
}

/// [odd, same x n, same, odd2, same]: see `c05_record_set`
pub fn odd_then_same(n: usize) -> Vec<Vec<u8>> {
    let mut v = vec![b"CCCGGGCCCG".to_vec()];
    v.extend(std::iter::repeat(b"AAAAATTTTT".to_vec()).take(n));
    v.push(b"GGCCGGCACG".to_vec());
    v.push(b"AAAAATTTTT".to_vec());
    v
}

/// two equal records `gap + 1` apart with identical unrelated records in between, then a record sharing the first
/// one's tail: distances of 2^8 and 2^16 (one less, one more) are where a per-record stamp or index of that width wraps
pub fn bookends(gap: usize) -> Vec<Vec<u8>> {
    let x = b"ACGTTGCAAGCTTAGGC".to_vec();
    let mut v = vec![x.clone()];
    v.extend(std::iter::repeat(b"AAAAAAAAAAAAAAAA".to_vec()).take(gap));
    v.push(x);
    v.push(b"GGATCCGATGCTTAGGC".to_vec());
    v.push(b"AAAAAAAAAAAAAAAA".to_vec());
    v
}

/// records whose normalised rows hold values just below 1 and just above 0: one odd window in 2.1 million
pub fn near_one_records() -> Vec<Vec<u8>> {
    let mut a = vec![b'C'];
    a.extend(std::iter::repeat(b'A').take(2_100_000));
    let mut t = vec![b'G'; 3];
    t.extend(std::iter::repeat(b't').take(2_100_000));
    t.extend_from_slice(b"GG");
    vec![b"ACGTAC".to_vec(), a, b"TTGCA".to_vec(), t]
}

fn c04_named_set(name: &str) -> Vec<Vec<u8>> {
    match name {
        "repeating" => repeating_records(),
        "near-one" => near_one_records(),
        _ => vec![crate::iters::long_input(70_000, 4), b"ACGU".to_vec(), crate::iters::long_input(66_000, 9), crate::iters::long_input(4097, 1), b"".to_vec(), crate::iters::long_input(140_000, 12)],
    }
}

fn c04_orders(maxlen: usize) -> Vec<Vec<Vec<u8>>> {
    let base = strings(S5, 0, maxlen);
    let n = base.len();
    vec![base.clone(), base.iter().rev().cloned().collect(), (0..n).map(|i| base[(i * 1597) % n].clone()).collect()]
}

fn c04_file_order(ctx: &mut Ctx, k: usize, records: &[Vec<u8>], mode: &str, threads: usize, order: usize) {
    let before = ctx.rep.violations.len();
    c04_file(ctx, k, records, mode, threads);
    // make the recorded case replayable with its order
    for v in ctx.rep.violations.iter_mut().skip(before) {
        v.argv.push(order.to_string());
        v.desc = format!("[record order {}] {}", ["shortest first", "longest first", "stride permutation"][order], v.desc);
    }
}

/// the whole small scope as ONE file through the file API
fn c04_file(ctx: &mut Ctx, k: usize, records: &[Vec<u8>], mode: &str, threads: usize) {
    let inp = format!("{}/c04_in.fa", ctx.scratch);
    let outp = format!("{}/c04_out.txt", ctx.scratch);
    write_fasta(&inp, records);
    let argv = vec!["case".to_string(), "C04file".to_string(), k.to_string(), mode.to_string(), threads.to_string(), records.len().to_string()];
    ctx.journal.note(|| format!("C04 file k={} mode={} threads={}", k, mode, threads));
    // modes ending in "-Hw": header line requested and a two-byte delimiter (both are public settings of the object)
    let (mode_full, wide) = (mode, mode.ends_with("-Hw"));
    let mode = mode.trim_end_matches("-Hw");
    let delim = if wide { "::" } else { " " };
    let r = guard(|| {
        let mut oc = OligoComputer::new(inp.clone(), outp.clone(), k);
        oc.set_threads(threads);
        if wide {
            oc.set_header(true);
            oc.set_delim(delim.to_string());
        }
        match mode {
            "mmap" => oc.verif_vectorise_mmap(),
            "batch-norm" => oc.verif_vectorise_batch(),
            "batch-small" => {
                oc.set_max_memory(7);
                oc.verif_vectorise_batch()
            }
            // the memory ceiling is a public setting of the object: it is crossed with the mapped writer too
            "mmap-small" => {
                oc.set_max_memory(100);
                oc.verif_vectorise_mmap()
            }
            "mmap-tiny" => {
                oc.set_max_memory(7);
                oc.verif_vectorise_mmap()
            }
            _ => {
                oc.set_norm(false);
                oc.vectorise()
            }
        }
    });
    ctx.rep.evaluations += 1;
    match r {
        Err(p) => return viol(ctx, "panic", k, format!("file API k={k} {mode}: panicked: {p}"), argv),
        Ok(Err(e)) => return viol(ctx, "error", k, format!("file API k={k} {mode}: {e}"), argv),
        Ok(Ok(())) => {}
    }
    let text = std::fs::read_to_string(&outp).unwrap_or_default();
    let body: &str = if wide {
        // the first line must be the header in the requested delimiter
        let names: Vec<String> = model::canon_index(k).iter().map(|&c| String::from_utf8(model::text_of(c, k)).unwrap()).collect();
        let want = names.join(delim) + "\n";
        match text.strip_prefix(want.as_str()) {
            Some(b) => b,
            None => return viol(ctx, "header-line", k, format!("file API k={k} {mode_full}: the output does not start with the header line in the requested delimiter (first bytes {:?})", &text[..text.len().min(60)]), argv),
        }
    } else {
        &text
    };
    let rows = match parse_rows(body, delim) {
        Ok(r) => r,
        Err(e) => return viol(ctx, "unparsable-output", k, format!("file API k={k} {mode_full}: {e}"), argv),
    };
    if rows.len() != records.len() {
        return viol(ctx, "row-count", k, format!("file API k={k} {mode}: {} rows for {} records", rows.len(), records.len()), argv);
    }
    let index = model::canon_index(k);
    for (i, (row, rec)) in rows.iter().zip(records).enumerate() {
        ctx.rep.evaluations += 1;
        let (cnt, tot) = model::oligo(rec, k, &index);
        if row.len() != cnt.len() {
            return viol(ctx, "row-length", k, format!("file API k={k} {mode}: row {i} has {} values, expected {}", row.len(), cnt.len()), argv);
        }
        for c in 0..cnt.len() {
            let ok = if mode == "counts" { row[c] == cnt[c] as f64 } else { model::close_to_ratio(row[c], cnt[c], tot) };
            if !ok {
                return viol(ctx, "file-value", k, format!("file API k={k} {mode}: row {i} (record {:?}{}) column {c} = {}, expected {}/{}", show(&rec[..rec.len().min(60)]), if rec.len() > 60 { format!("... {} bases", rec.len()) } else { String::new() }, row[c], cnt[c], if mode == "counts" { 1 } else { tot }), argv);
            }
        }
        if tot > 0 {
            ctx.rep.nontrivial += 1;
        }
    }
}

pub fn c04(ctx: &mut Ctx) {

    // per-record function, small scope
    let l = ctx.pick(8, 11);
    let sets: Vec<OligoSet> = (1..=8).map(oligo_set).collect();
    let mut sh = ctx.shard;
    let mut todo: Vec<Vec<u8>> = Vec::new();
    for_each_string(S5, 0, l, |s| {
        if sh.mine() {
            todo.push(s.to_vec());
        }
    });
    let mut n = 0u64;
    for s in &todo {
        for k in 1..=4usize {
            c04_one(ctx, &sets[k - 1], "small-scope", s, true);
            n += 1;
            if s.len() >= k {
                ctx.rep.nontrivial += 1;
            }
        }
    }
    ctx.rep.count("cases.small_scope", n);
    drop(todo);
    // mixed-case / U alphabet, short
    let mut sh = ctx.shard;
    let mut n = 0u64;
    let mut todo: Vec<Vec<u8>> = Vec::new();
    for_each_string(S10, 0, ctx.pick(5, 6), |s| {
        if sh.mine() {
            todo.push(s.to_vec());
        }
    });
    for s in &todo {
        for k in 1..=3usize {
            c04_one(ctx, &sets[k - 1], "case-and-U", s, true);
            n += 1;
            if s.len() >= k && s.iter().any(|b| !S5.contains(b)) {
                ctx.rep.nontrivial += 1;
            }
        }
    }
    ctx.rep.count("cases.case_and_u", n);
    drop(todo);
    // family for k 5..=8
    let ps = strings(S5, 0, 2);
    let units = strings(S4, 1, ctx.pick(2, 3));
    let mut sh = ctx.shard;
    let mut n = 0u64;
    for k in 5..=8usize {
        for p in &ps {
            for s2 in &ps {
                for u in &units {
                    if !sh.mine() {
                        continue;
                    }
                    for len in [k - 1, k, k + 1, 2 * k + 1, 40] {
                        let mut s = p.clone();
                        s.extend_from_slice(&fill(u, len));
                        s.extend_from_slice(s2);
                        c04_one(ctx, &sets[k - 1], "family", &s, true);
                        n += 1;
                        ctx.rep.nontrivial += 1;
                    }
                }
            }
        }
    }
    ctx.rep.count("cases.family", n);
    // long records
    let mut sh = ctx.shard;
    for (i, s) in crate::iters::medium_inputs(ctx.pick(300, 3000)).iter().enumerate() {
        if sh.mine() && !ctx.monitor() {
            c04_one(ctx, &sets[i % 8], "medium-random", s, i % 5 == 0);
            ctx.rep.nontrivial += 1;
            ctx.rep.count("cases.medium_random", 1);
        }
    }
    for (i, &len) in crate::iters::THRESHOLD_LENGTHS.iter().enumerate() {
        let s = crate::iters::long_input(len, 80 + i as u64);
        for k in [1usize, 2, 3, 4] {
            if sh.mine() && !ctx.monitor() {
                c04_one(ctx, &sets[k - 1], "threshold-length", &s, false);
                ctx.rep.nontrivial += 1;
                ctx.rep.count("cases.long_records", 1);
            }
        }
    }
    for (len, seed) in [(4097usize, 1u64), (8193, 2), (20_000, 3), (70_000, 4)] {
        let s = crate::iters::long_input(len, seed);
        for k in 1..=8usize {
            if sh.mine() {
                c04_one(ctx, &sets[k - 1], "long-record", &s, true);
                ctx.rep.nontrivial += 1;
                ctx.rep.count("cases.long_records", 1);
            }
        }
    }
    // one record with more windows than a single-precision float or a 24-bit counter can count (2^24): all of
    // them in one column (single letter), and spread over a few columns (period 3)
    for unit in [&b"A"[..], b"ACG", b"t"] {
        for k in [1usize, 3] {
            if sh.mine() && !ctx.monitor() {
                let n = (1usize << 24) + 9 + k;
                let s = fill(unit, n);
                c04_one_as(ctx, &sets[k - 1], "huge-record", &s, false, Some((unit, n)));
                ctx.rep.nontrivial += 1;
                ctx.rep.count("cases.huge_records", 1);
            }
        }
    }
    // file API: all S5 strings of length <= 6 as one file per (k, mode); one (k, mode) pair per shard slot
    // three orders of the same records: shortest first, longest first, and a stride permutation that interleaves
    // short and long records (a routine that carries state from one record to the next must not get away with it)
    let base = strings(S5, 0, ctx.pick(5, 6));
    let mut orders: Vec<Vec<Vec<u8>>> = vec![base.clone(), base.iter().rev().cloned().collect()];
    let n = base.len();
    orders.push((0..n).map(|i| base[(i * 1597) % n].clone()).collect()); // 1597 is coprime to 5^j sums used here
    let mut sh = ctx.shard;
    let mut nf = 0u64;
    for k in 1..=4usize {
        for (oi, recs) in orders.iter().enumerate() {
            for (mode, threads) in [("mmap", 3usize), ("mmap", 16), ("batch-norm", 4), ("batch-small", 4), ("counts", 2), ("counts", 1), ("batch-norm", 1), ("mmap-small", 1), ("mmap-small", 5), ("mmap-tiny", 2), ("mmap-Hw", 2), ("batch-norm-Hw", 3), ("counts-Hw", 1), ("mmap-small-Hw", 4)] {
                if sh.mine() {
                    c04_file_order(ctx, k, recs, mode, threads, oi);
                    nf += 1;
                }
            }
        }
    }
    // long records (beyond 64 Ki bases, with lower case, U and ambiguous bytes) through every writer path
    // and records that repeat (identical neighbours, reverse complement of the previous record, ...)
    // and a record in which one window in two million differs from all others (printed values next to 1 and to 0)
    for set in ["long", "repeating", "near-one"] {
        if ctx.monitor() && set != "repeating" {
            continue;
        }
        let records = c04_named_set(set);
        for k in [1usize, 3, 4] {
            for (mode, threads) in [("mmap", 3usize), ("batch-norm", 4), ("batch-small", 2), ("counts", 2), ("counts", 1), ("mmap-small", 2)] {
                if sh.mine() {
                    let before = ctx.rep.violations.len();
                    c04_file(ctx, k, &records, mode, threads);
                    for v in ctx.rep.violations.iter_mut().skip(before) {
                        v.argv = vec!["case".into(), "C04long".into(), k.to_string(), mode.to_string(), threads.to_string(), set.to_string()];
                        v.desc = format!("[{set} records] {}", v.desc);
                    }
                    nf += 1;
                }
            }
        }
    }
    let recs = base;
    ctx.rep.count("cases.file_runs", nf);
    if ctx.shard.is_first() {
        ctx.rep.sample("per-record: \"ACNGT\" k=2 -> counts AC:2 (AC and GT), total 2; normalised 1.0 in column AC".to_string());
        ctx.rep.sample("invariance: row(\"ACGTN\") = row(\"NACGT\") (reverse complement) = row(\"acgtn\") = row(\"ACGUN\")".to_string());
        ctx.rep.sample(format!("file API: {} records (every string over ACGTN up to length {}) as one FASTA, k=3, mmap writer with 16 threads; rows parsed back", recs.len(), ctx.pick(5, 6)));
        ctx.rep.notes.push(format!("C04: per-record S5^(0..={}) x k 1..=4 x (norm, raw) with three invariances; S10 strings x k 1..=3; family k 5..=8; file API k 1..=4 x (mmap 3 and 16 threads, batch, batch with 7-base limit, counts)", l));
    }
}

// ------------------------------------------------------------------------------------------ C11

const CGR_SIZES: [usize; 7] = [1, 2, 3, 7, 16, 1000, 1 << 20];
/// further sizes around powers of two, used on the shorter strings
const CGR_SIZES_EXTRA: [usize; 8] = [5, 255, 256, 1023, 1024, 65_535, 65_536, (1 << 20) - 1];

fn c11_one(ctx: &mut Ctx, comp: &CgrComputer, s_size: usize, family: &str, seq: &[u8]) {
    ctx.journal
        .note(|| format!("C11 {} seq={} S={}", family, hex(seq), s_size));
    let argv = vec!["case".to_string(), "C11".to_string(), hex(seq), s_size.to_string()];
    let size = seq.len() * 64;
    ctx.rep.evaluations += 1;
    let exp = model::cgr_exact(seq, s_size as u128);
    let got = guard(|| comp.verif_vectorise_one(seq));
    match (exp, got) {
        (_, Err(p)) => viol(ctx, "panic", size, format!("cgr vectorise_one({:?}, S={s_size}) panicked: {p}", show(seq)), argv),
        (None, Ok(Ok(pts))) => viol(ctx, "bad-byte-accepted", size, format!("cgr vectorise_one({:?}, S={s_size}) returned {} points for a record with a non-nucleotide byte", show(seq), pts.len()), argv),
        (None, Ok(Err(_))) => {}
        (Some(_), Ok(Err(e))) => viol(ctx, "clean-record-rejected", size, format!("cgr vectorise_one({:?}, S={s_size}) = Err({e})", show(seq)), argv),
        (Some(exp), Ok(Ok(pts))) => {
            if pts.len() != exp.len() {
                return viol(ctx, "point-count", size, format!("cgr vectorise_one({:?}, S={s_size}): {} points for {} bases", show(seq), pts.len(), seq.len()), argv);
            }
            for (i, (p, e)) in pts.iter().zip(exp.iter()).enumerate() {
                if !(model::dyadic_eq(e.0, e.2, p.0) && model::dyadic_eq(e.1, e.2, p.1)) {
                    return viol(ctx, "point-value", size, format!("cgr vectorise_one({:?}, S={s_size}): point {i} = ({}, {}), expected ({}/2^{}, {}/2^{})", show(seq), p.0, p.1, e.0, e.2, e.1, e.2), argv);
                }
            }
        }
    }
}

/// long inputs: prefix determinism and sub-square containment
fn c11_long(ctx: &mut Ctx, comp: &CgrComputer, s_size: usize, seq: &[u8]) {
    ctx.journal
        .note(|| format!("C11 long len={} S={}", seq.len(), s_size));
    let argv = vec!["case".to_string(), "C11long".to_string(), hex(seq), s_size.to_string()];
    ctx.rep.evaluations += 1;
    let full = match guard(|| comp.verif_vectorise_one(seq)) {
        Ok(Ok(p)) => p,
        other => return viol(ctx, "long-failed", seq.len(), format!("cgr on periodic input of length {} S={s_size}: {:?}", seq.len(), other.map(|r| r.map(|p| p.len()))), argv),
    };
    if full.len() != seq.len() {
        return viol(ctx, "point-count", seq.len(), format!("cgr long: {} points for {} bases", full.len(), seq.len()), argv);
    }
    // the midpoint rule itself, step by step on the routine's own points: p_i = (corner_i + p_(i-1)) / 2.
    // In binary floating point this is exact up to one rounding of the sum, and any correct evaluation order
    // (halving first, or adding first) gives the same double, so equality is demanded.
    let s = s_size as f64;
    let mut prev = (s / 2.0, s / 2.0);
    for (i, &b) in seq.iter().enumerate() {
        let (cx, cy) = match model::class(b).unwrap() {
            0 => (0.0, 0.0),
            1 => (0.0, s),
            2 => (s, s),
            _ => (s, 0.0),
        };
        let exp = ((cx + prev.0) / 2.0, (cy + prev.1) / 2.0);
        if full[i] != exp {
            return viol(ctx, "midpoint-rule", seq.len(), format!("cgr on an input of {} bases S={s_size}: point {i} = ({:e},{:e}) is not the midpoint of point {} = ({:e},{:e}) and the corner of base {:?}, which is ({:e},{:e})", seq.len(), full[i].0, full[i].1, i as i64 - 1, prev.0, prev.1, b as char, exp.0, exp.1), argv);
        }
        prev = full[i];
    }
    // prefix determinism
    for cut in [1usize, 2, 3, 10, 53, 54, 100, 1000, 4095, 4096, 4097, 8192, 8193, seq.len() - 1] {
        if cut >= seq.len() {
            continue;
        }
        ctx.rep.evaluations += 1;
        match guard(|| comp.verif_vectorise_one(&seq[..cut])) {
            Ok(Ok(p)) if p[..] == full[..cut] => {}
            _ => return viol(ctx, "prefix-determinism", seq.len(), format!("cgr long S={s_size}: points of the prefix of length {cut} differ from the first {cut} points of the full record"), argv),
        }
    }
    // containment: the last j bases confine point i to a sub-square of side S/2^j (exact in f64 for j <= 20, S <= 2^20)
    for i in 0..seq.len() {
        for j in 1..=20usize.min(i + 1) {
            let mut lx = 0.0f64;
            let mut ly = 0.0f64;
            for t in 1..=j {
                let (cx, cy) = match model::class(seq[i + 1 - t]).unwrap() {
                    0 => (0.0, 0.0),
                    1 => (0.0, s),
                    2 => (s, s),
                    _ => (s, 0.0),
                };
                lx += cx / 2f64.powi(t as i32);
                ly += cy / 2f64.powi(t as i32);
            }
            let side = s / 2f64.powi(j as i32);
            let (x, y) = full[i];
            if !(x >= lx && x <= lx + side && y >= ly && y <= ly + side) {
                return viol(ctx, "containment", seq.len(), format!("cgr long S={s_size}: point {i} = ({x},{y}) outside the sub-square [{lx},{}]x[{ly},{}] fixed by its last {j} bases", lx + side, ly + side), argv);
            }
        }
    }
    ctx.rep.nontrivial += 1;
}

fn cgr_row(points: &[(f64, f64)]) -> String {
    points.iter().map(|p| format!("({},{})", p.0, p.1)).collect::<Vec<_>>().join(" ")
}

fn c11_file(ctx: &mut Ctx, records: &[Vec<u8>], s_size: usize, threads: usize, mem: usize, tag: &str) {
    let inp = format!("{}/c11_in.fa", ctx.scratch);
    let outp = format!("{}/c11_out.txt", ctx.scratch);
    write_fasta(&inp, records);
    // the output of the previous case stays in place (sizes go up and down over one path), except where a refusal is
    // expected: there "no row for the bad record" is judged on what this run wrote
    if records.iter().any(|r| r.iter().any(|&b| model::class(b).is_none())) {
        let _ = std::fs::remove_file(&outp);
    }
    let argv = vec!["case".to_string(), "C11file".to_string(), tag.to_string(), s_size.to_string(), threads.to_string(), mem.to_string()];
    ctx.journal.note(|| format!("C11 file {} S={} threads={} mem={}", tag, s_size, threads, mem));
    ctx.rep.evaluations += 1;
    let bad_record = records.iter().any(|r| r.iter().any(|&b| model::class(b).is_none()));
    let r = guard(|| {
        let mut c = CgrComputer::new(inp.clone(), outp.clone(), s_size);
        c.set_threads(threads);
        c.verif_set_max_memory(mem);
        c.vectorise()
    });
    let text = std::fs::read_to_string(&outp).unwrap_or_default();
    if !text.is_empty() && text.len() % 4096 == 0 {
        ctx.rep.count("outputs_on_a_4k_multiple", 1);
    }
    let lines: Vec<&str> = text.split('\n').collect();
    let lines = if lines.last() == Some(&"") { &lines[..lines.len() - 1] } else { &lines[..] };
    if bad_record {
        // refusal in any form is fine; coordinates for the bad record are not
        if let Ok(Ok(())) = r {
            if lines.len() >= records.len() {
                return viol(ctx, "bad-record-got-row", records.len(), format!("cgr file {tag}: run completed with {} rows for {} records although one record has a non-nucleotide byte", lines.len(), records.len()), argv);
            }
        }
        ctx.rep.nontrivial += 1;
        return;
    }
    match r {
        Err(p) => return viol(ctx, "panic", records.len(), format!("cgr file {tag} S={s_size} threads={threads} mem={mem}: panicked: {p}"), argv),
        Ok(Err(e)) => return viol(ctx, "error", records.len(), format!("cgr file {tag}: {e}"), argv),
        Ok(Ok(())) => {}
    }
    if lines.len() != records.len() {
        return viol(ctx, "row-count", records.len(), format!("cgr file {tag} S={s_size} threads={threads} mem={mem}: {} rows for {} records", lines.len(), records.len()), argv);
    }
    let comp = CgrComputer::new("-".into(), "-".into(), s_size);
    for (i, rec) in records.iter().enumerate() {
        // the property fixes the values of the points, not how a number is spelled: the row is parsed and its
        // numbers must be exactly the per-record routine's (which the per-record part holds to the model)
        let exp = comp.verif_vectorise_one(rec).unwrap();
        let got = parse_tuples(lines[i], 2);
        let same = matches!(&got, Some(g) if g.len() == exp.len() && g.iter().zip(exp.iter()).all(|(a, b)| a[0].to_bits() == b.0.to_bits() && a[1].to_bits() == b.1.to_bits()));
        if !same {
            let exp_text = cgr_row(&exp);
            return viol(ctx, "row-order-or-value", records.len(), format!("cgr file {tag} S={s_size} threads={threads} mem={mem}: row {i} is {:?}, expected the points of record {i} {:?}", &lines[i][..lines[i].len().min(60)], &exp_text[..exp_text.len().min(60)]), argv);
        }
    }
    ctx.rep.nontrivial += 1;
}

/// a row of blank-separated tuples "(a,b)" or "(a,b,c)" parsed as numbers; None if it is not of that shape
fn parse_tuples(line: &str, arity: usize) -> Option<Vec<Vec<f64>>> {
    if line.is_empty() {
        return Some(Vec::new());
    }
    let mut out = Vec::new();
    for tok in line.split(' ') {
        let inner = tok.strip_prefix('(')?.strip_suffix(')')?;
        let nums: Vec<f64> = inner.split(',').map(|t| t.trim().parse::<f64>().ok()).collect::<Option<Vec<f64>>>()?;
        if nums.len() != arity {
            return None;
        }
        out.push(nums);
    }
    Some(out)
}

pub fn cgr_record_sets() -> Vec<(&'static str, Vec<Vec<u8>>)> {
    let mut sets: Vec<(&'static str, Vec<Vec<u8>>)> = Vec::new();
    sets.push(("one", vec![b"ACGT".to_vec()]));
    sets.push(("two", vec![b"A".to_vec(), b"CCGT".to_vec()]));
    sets.push(("five-with-empty", vec![b"ACG".to_vec(), b"".to_vec(), b"T".to_vec(), b"GGCA".to_vec(), b"ac".to_vec()]));
    sets.push(("all-len-le-3", strings(S4, 1, 3)));
    let many: Vec<Vec<u8>> = (0..500usize).map(|i| model::text_of((i * 2654435761usize % 4096) as u128, 6)[..(1 + i % 6)].to_vec()).collect();
    sets.push(("five-hundred", many));
    // one long record followed by short ones: with one record per batch a later batch finishes before the first
    let mut lf = vec![fill(b"ACGGTCA", 200_000)];
    lf.extend(strings(S4, 1, 2).into_iter().take(6));
    sets.push(("long-first", lf));
    sets.push(("empty-last", vec![b"ACG".to_vec(), b"ACGTACGTAC".to_vec(), b"".to_vec()]));
    sets.push(("empty-last-2", vec![b"ACGTACGTAC".to_vec(), b"ACG".to_vec(), b"".to_vec(), b"".to_vec()]));
    sets.push(("bad-second", vec![b"ACG".to_vec(), b"ANG".to_vec(), b"T".to_vec()]));
    sets.push(("bad-trailing-N", vec![b"ACG".to_vec(), b"TTN".to_vec()]));
    sets.push(("bad-trailing-NN", vec![b"ACGTNN".to_vec()]));
    sets.push(("bad-leading-N", vec![b"NACGT".to_vec(), b"AC".to_vec()]));
    sets.push(("bad-all-N", vec![b"AC".to_vec(), b"NNN".to_vec()]));
    sets.push(("bad-trailing-n-lower", vec![b"acgtn".to_vec()]));
    sets.push(("bad-last", vec![b"ACG".to_vec(), b"TT".to_vec(), b"TTx".to_vec()]));
    // records whose coordinates get very small (long printed forms, denormals, zero) and settle on a corner
    sets.push(("periodic-extremes", {
        let mut v: Vec<Vec<u8>> = Vec::new();
        for u in [&b"A"[..], b"C", b"G", b"T", b"AC", b"AT", b"CA", b"ug"] {
            for len in [23usize, 30, 60, 1100] {
                v.push(fill(u, len));
            }
        }
        v
    }));
    sets.push(("odd-then-same-65536", odd_then_same(65_536)));
    sets.push(("single-bases", (0..175_000usize).map(|i| vec![b"ACGTTGCA"[(i * 5 + i / 8) % 8]]).collect()));
    sets.push(("twenty-thousand", (0..20_000usize).map(|i| model::text_of((i * 2654435761usize % 4096) as u128, 6)[..(1 + (i * 7) % 6)].to_vec()).collect()));
    sets.push(("repeating", repeating_records().into_iter().map(|r| r.iter().map(|&b| if b == b'N' { b'A' } else { b }).collect()).collect()));
    sets
}

pub fn c11(ctx: &mut Ctx) {

    cgr_reuse(ctx, false);
    let comps: Vec<(usize, CgrComputer)> = CGR_SIZES.iter().map(|&s| (s, CgrComputer::new("-".into(), "-".into(), s))).collect();
    // clean strings
    let l = ctx.pick(10, 13);
    let mut sh = ctx.shard;
    let mut todo: Vec<Vec<u8>> = Vec::new();
    for_each_string(S4, 0, l, |s| {
        if sh.mine() {
            todo.push(s.to_vec());
        }
    });
    let mut n = 0u64;
    for s in &todo {
        for (sz, c) in &comps {
            c11_one(ctx, c, *sz, "clean", s);
            n += 1;
            if !s.is_empty() {
                ctx.rep.nontrivial += 1;
            }
        }
    }
    ctx.rep.count("cases.clean_strings", n);
    // every size 1..=64 and the sizes around powers of two, on the strings up to length 6
    {
        let mut extra: Vec<(usize, CgrComputer)> = (1..=64usize).chain(CGR_SIZES_EXTRA.iter().cloned()).map(|s| (s, CgrComputer::new("-".into(), "-".into(), s))).collect();
        extra.dedup_by_key(|e| e.0);
        let mut m = 0u64;
        for s in todo.iter().filter(|s| s.len() <= 6) {
            for (sz, c) in &extra {
                c11_one(ctx, c, *sz, "clean-all-sizes", s);
                m += 1;
                ctx.rep.nontrivial += 1;
            }
        }
        ctx.rep.count("cases.clean_strings_all_sizes", m);
    }
    drop(todo);
    // both cases and U
    let mut sh = ctx.shard;
    let mut todo: Vec<Vec<u8>> = Vec::new();
    for_each_string(S10, 1, ctx.pick(5, 6), |s| {
        if sh.mine() && s.iter().any(|b| !S4.contains(b)) {
            todo.push(s.to_vec());
        }
    });
    let mut n = 0u64;
    for s in &todo {
        for (sz, c) in &comps {
            c11_one(ctx, c, *sz, "case-and-U", s);
            n += 1;
            ctx.rep.nontrivial += 1;
        }
    }
    ctx.rep.count("cases.case_and_u", n);
    drop(todo);
    // rejection: strings over ACGT+N+x with at least one bad byte
    let mut sh = ctx.shard;
    let mut n = 0u64;
    let mut todo: Vec<Vec<u8>> = Vec::new();
    for_each_string(b"ACGTNx", 1, ctx.pick(5, 6), |s| {
        if s.iter().any(|b| !S4.contains(b)) && sh.mine() {
            todo.push(s.to_vec());
        }
    });
    for s in &todo {
        for (sz, c) in [&comps[0], &comps[4]] {
            c11_one(ctx, c, *sz, "rejection", s);
            n += 1;
            ctx.rep.nontrivial += 1;
        }
    }
    // every byte value outside the ten letters, in every context of length <= 2
    let ctxs = strings(S4, 0, 2);
    for b in 0u16..=255 {
        let b = b as u8;
        if S10.contains(&b) {
            continue;
        }
        for u in &ctxs {
            for v in &ctxs {
                if !sh.mine() {
                    continue;
                }
                let mut s = u.clone();
                s.push(b);
                s.extend_from_slice(v);
                c11_one(ctx, &comps[0].1, 1, "rejection-bytes", &s);
                n += 1;
                ctx.rep.nontrivial += 1;
            }
        }
    }
    ctx.rep.count("cases.rejection", n);
    // long periodic inputs
    let mut sh = ctx.shard;
    // lengths beyond the block sizes a routine might plausibly switch strategy at (powers of two up to 64 Ki)
    let long_lens: Vec<usize> = if ctx.thorough() { vec![60, 1000, 4097, 5000, 8193, 16385, 40_000, 70_000] } else { vec![60, 1000, 4097, 5000, 8193, 10_000] };
    let mut units: Vec<Vec<u8>> = strings(S4, 1, 3);
    units.push(b"acgu".to_vec());
    units.push(b"ttttttttttttttttttttttttttttttttttttttttttttttttttttttttttttttttttttttttttttttttttttttttttttttttttttc".to_vec());
    for u in units {
        for &len in &long_lens {
            for (sz, c) in [&comps[0], &comps[5], &comps[6]] {
                if sh.mine() {
                    c11_long(ctx, c, *sz, &fill(&u, len));
                }
            }
        }
    }
    // non-periodic long inputs with long single-letter runs placed across the power-of-two positions
    for seed in 0..ctx.pick(4u64, 16) {
        for (sz, c) in [&comps[0], &comps[3], &comps[6]] {
            if !sh.mine() {
                continue;
            }
            let mut x = seed.wrapping_mul(0x9E37_79B9_7F4A_7C15) | 1;
            let mut sq: Vec<u8> = (0..12_000usize)
                .map(|_| {
                    x = x.wrapping_mul(6364136223846793005).wrapping_add(1442695040888963407);
                    b"ACGTacgu"[((x >> 33) % 8) as usize]
                })
                .collect();
            for (at, ch) in [(4000usize, b'A'), (8100, b'c'), (2000, b't'), (10_000, b'G')] {
                for j in 0..200 {
                    sq[at + j] = ch;
                }
            }
            c11_long(ctx, c, *sz, &sq);
        }
    }
    for (i, s) in crate::iters::medium_inputs(ctx.pick(200, 2000)).iter().enumerate() {
        if sh.mine() {
            let clean: Vec<u8> = s.iter().map(|&b| if model::class(b).is_none() { b"ACGT"[(b as usize) % 4] } else { b }).collect();
            let (sz, c) = &comps[i % comps.len()];
            c11_long(ctx, c, *sz, &clean);
        }
    }
    // long records with ONE foreign byte (first, second, middle, last position): refused whatever their length
    {
        let mut nrej = 0u64;
        for (i, &len) in crate::iters::THRESHOLD_LENGTHS.iter().enumerate() {
            if len > 100_001 {
                continue;
            }
            let clean: Vec<u8> = crate::iters::long_input(len, 300 + i as u64).iter().map(|&b| if b == b'N' { b'A' } else { b }).collect();
            for pos in [0usize, 1, len / 2, len - 1] {
                for bad in [b'N', b'x', 0x80u8] {
                    if !sh.mine() {
                        continue;
                    }
                    let mut s = clean.clone();
                    s[pos] = bad;
                    ctx.rep.evaluations += 1;
                    let argv = vec!["case".to_string(), "C11".to_string(), hex(&s), "16".to_string()];
                    match guard(|| comps[4].1.verif_vectorise_one(&s)) {
                        Ok(Err(_)) => {
                            ctx.rep.nontrivial += 1;
                        }
                        Ok(Ok(p)) => viol(ctx, "bad-byte-accepted", len, format!("cgr vectorise_one on a record of {len} bases whose byte {pos} is {:?}: returned {} points instead of refusing", bad as char, p.len()), argv),
                        Err(p) => viol(ctx, "panic", len, format!("cgr vectorise_one on a record of {len} bases whose byte {pos} is {:?}: panicked: {p}", bad as char), argv),
                    }
                    nrej += 1;
                }
            }
        }
        ctx.rep.count("cases.rejection_long", nrej);
    }
    // a single-letter run long enough for the point to settle on the corner in double precision (54 steps for the
    // corner (S,S), about 1075 for the others), then other bases, then the same letter again
    for &ch in b"ACGTUacgtu" {
        for run in [53usize, 54, 55, 64, 1074, 1075, 1076, 1200] {
            for (sz, c) in [&comps[0], &comps[5]] {
                if !sh.mine() {
                    continue;
                }
                let mut sq = vec![ch; run];
                sq.extend_from_slice(b"ACGTTGCAacgu");
                sq.extend_from_slice(&[ch, ch, ch]);
                sq.extend_from_slice(b"GATTACA");
                sq.push(ch);
                c11_long(ctx, c, *sz, &sq);
            }
        }
    }
    // file path
    let mut sh = ctx.shard;
    let mut nf = 0u64;
    // outputs whose size is exactly a multiple of 4 KiB / 8 KiB / 64 KiB (and one row less, one more)
    {
        let pool = cgr_record_sets().into_iter().find(|(t, _)| *t == "twenty-thousand").unwrap().1;
        for (sz, c) in [&comps[0], &comps[4]] {
            let lens: Vec<usize> = pool.iter().map(|r| cgr_row(&c.verif_vectorise_one(r).unwrap()).len() + 1).collect();
            for n in boundary_prefixes(&lens, 0) {
                for (threads, mem) in [(1usize, 4usize << 30), (4, 4 << 30), (3, 1000)] {
                    if sh.mine() {
                        c11_file(ctx, &pool[..n], *sz, threads, mem, &format!("twenty-thousand:{n}"));
                        nf += 1;
                        ctx.rep.count("cases.size_boundaries", 1);
                    }
                }
            }
        }
    }
    for (tag, recs) in cgr_record_sets() {
        if tag == "odd-then-same-65536" {
            for threads in [1usize, 4] {
                if sh.mine() {
                    c11_file(ctx, &recs, 16, threads, 4 << 30, tag);
                    nf += 1;
                }
            }
            continue;
        }
        if tag == "twenty-thousand" || tag == "single-bases" {
            continue;
        }
        for threads in 1..=16usize {
            for mem in [1usize, 5, 4 << 30] {
                for sz in [1usize, 16] {
                    if sh.mine() {
                        c11_file(ctx, &recs, sz, threads, mem, tag);
                        nf += 1;
                    }
                }
            }
        }
    }
    // every record count 0..=40 (and a few larger) x threads 1..=8, 16 x two batch limits
    let pool = cgr_record_sets().into_iter().find(|(t, _)| *t == "five-hundred").unwrap().1;
    for nrec in (0..=40usize).chain([63, 64, 65, 127, 129]) {
        for threads in (1..=8usize).chain([16]) {
            for mem in [7usize, 4 << 30] {
                if sh.mine() {
                    c11_file(ctx, &pool[..nrec], 16, threads, mem, &format!("five-hundred:{nrec}"));
                    nf += 1;
                }
            }
        }
    }
    // record counts at the powers of two, and (rows of single-base records at S=4 all have 6 bytes) outputs of exactly
    // 4 KiB, 8 KiB, 64 KiB and 1 MiB
    {
        let pool20 = cgr_record_sets().into_iter().find(|(t, _)| *t == "twenty-thousand").unwrap().1;
        for &nrec in crate::enumr::POW2_COUNTS.iter() {
            for (threads, mem) in [(1usize, 4usize << 30), (4, 4 << 30), (3, 2000)] {
                if sh.mine() {
                    c11_file(ctx, &pool20[..nrec], 16, threads, mem, &format!("twenty-thousand:{nrec}"));
                    nf += 1;
                }
            }
        }
        let singles = cgr_record_sets().into_iter().find(|(t, _)| *t == "single-bases").unwrap().1;
        // record counts at round decimal numbers
        for &nrec in crate::enumr::DEC_COUNTS.iter() {
            for (threads, mem) in [(1usize, 4usize << 30), (4, 4 << 30), (3, 2000)] {
                if sh.mine() {
                    c11_file(ctx, &singles[..nrec], 16, threads, mem, &format!("single-bases:{nrec}"));
                    nf += 1;
                }
            }
        }
        for nrec in crate::conc::boundary_counts(0, 6, singles.len() - 1) {
            for (threads, mem) in [(1usize, 4usize << 30), (4, 4 << 30)] {
                if sh.mine() {
                    c11_file(ctx, &singles[..nrec], 4, threads, mem, &format!("single-bases:{nrec}"));
                    nf += 1;
                    ctx.rep.count("cases.size_boundaries", 1);
                }
            }
        }
    }
    ctx.rep.count("cases.file_runs", nf);
    if ctx.shard.is_first() {
        ctx.rep.sample("clean: \"AC\" S=16 -> points (4,4), (2,10) exactly (dyadic oracle)".to_string());
        ctx.rep.sample("rejection: \"ACNG\" -> Err, no coordinates; every byte outside ACGTUacgtu in contexts of length <= 2".to_string());
        ctx.rep.sample("file: 500 records, threads 1..=16, batch limit 1 / 5 / 4 GiB bases: rows = per-record rows in input order".to_string());
        ctx.rep.notes.push(format!("C11: S4^(0..={}) and S10 strings x sizes {:?}; rejection sets; periodic inputs to length {} (prefix determinism, containment by last j<=20 bases); file path x threads 1..=16 x 3 batch limits", l, CGR_SIZES, ctx.pick(2000, 5000)));
    }
}

// ------------------------------------------------------------------------------------------ C12

fn c12_one(ctx: &mut Ctx, k: usize, s_size: usize, norm: bool, comp: &OligoCgrComputer, oligo: &OligoComputer, index: &[u128], seq: &[u8]) {
    c12_one_as(ctx, k, s_size, norm, comp, oligo, index, seq, None)
}

#[allow(clippy::too_many_arguments)]
fn c12_one_as(ctx: &mut Ctx, k: usize, s_size: usize, norm: bool, comp: &OligoCgrComputer, oligo: &OligoComputer, index: &[u128], seq: &[u8], huge: Option<(&[u8], usize)>) {
    let disp = |x: &[u8]| match huge {
        Some((u, n)) => format!("<{:?} repeated to {} bases>", show(u), n),
        None => show(x),
    };
    ctx.journal
        .note(|| format!("C12 seq={} k={} S={} norm={}", if huge.is_some() { disp(seq) } else { hex(seq) }, k, s_size, norm));
    let argv = match huge {
        Some((u, n)) => vec!["case".to_string(), "C12huge".to_string(), hex(u), n.to_string(), k.to_string(), s_size.to_string(), (norm as u8).to_string()],
        None => vec!["case".to_string(), "C12".to_string(), hex(seq), k.to_string(), s_size.to_string(), (norm as u8).to_string()],
    };
    let size = seq.len() * 64 + k;
    ctx.rep.evaluations += 1;
    let got = guard(|| (comp.verif_vectorise_one(seq), oligo.verif_vectorise_one(seq)));
    let (row, freqs) = match got {
        Err(p) => return viol(ctx, "panic", size, format!("k-mer cgr({:?}, k={k}, S={s_size}) panicked: {p}", disp(seq)), argv),
        Ok((Err(e), _)) => return viol(ctx, "error", size, format!("k-mer cgr({:?}, k={k}, S={s_size}) = Err({e})", disp(seq)), argv),
        Ok((Ok(r), f)) => (r, f),
    };
    if row.len() != index.len() {
        return viol(ctx, "row-length", size, format!("k-mer cgr({:?}, k={k}): {} triples, expected {}", disp(seq), row.len(), index.len()), argv);
    }
    let (cnt, tot) = model::oligo(seq, k, index);
    for (r, ((p, f), &code)) in row.iter().zip(index.iter()).enumerate() {
        let text = model::text_of(code, k);
        let e = *model::cgr_exact(&text, s_size as u128).unwrap().last().unwrap();
        if !(model::dyadic_eq(e.0, e.2, p.0) && model::dyadic_eq(e.1, e.2, p.1)) {
            return viol(ctx, "coordinate", size, format!("k-mer cgr k={k} S={s_size}: column {r} ({}) at ({},{}) expected ({}/2^{}, {}/2^{})", show(&text), p.0, p.1, e.0, e.2, e.1, e.2), argv);
        }
        if *f != freqs[r] {
            return viol(ctx, "differs-from-oligo", size, format!("k-mer cgr({:?}, k={k}, norm={norm}): column {r} frequency {} but the oligo vector has {}", disp(seq), f, freqs[r]), argv);
        }
        let ok = if norm { model::close_to_ratio(*f, cnt[r], tot) } else { *f == cnt[r] as f64 };
        if !ok {
            return viol(ctx, "frequency", size, format!("k-mer cgr({:?}, k={k}, norm={norm}): column {r} frequency {}, expected {}/{}", disp(seq), f, cnt[r], if norm { tot } else { 1 }), argv);
        }
    }
}

fn c12_file(ctx: &mut Ctx, records: &[Vec<u8>], k: usize, s_size: usize, norm: bool, threads: usize, mem: usize, tag: &str) {
    let inp = format!("{}/c12_in.fa", ctx.scratch);
    let outp = format!("{}/c12_out.txt", ctx.scratch);
    write_fasta(&inp, records);
    // the output of the previous case stays in place: sizes go up and down over one path
    let argv = vec!["case".to_string(), "C12file".to_string(), tag.to_string(), k.to_string(), s_size.to_string(), (norm as u8).to_string(), threads.to_string(), mem.to_string()];
    ctx.journal.note(|| format!("C12 file {} k={} threads={} mem={}", tag, k, threads, mem));
    ctx.rep.evaluations += 1;
    let r = guard(|| {
        let mut c = OligoCgrComputer::new(inp.clone(), outp.clone(), k, s_size);
        c.set_threads(threads);
        c.set_norm(norm);
        c.verif_set_max_memory(mem);
        c.vectorise()
    });
    match r {
        Err(p) => return viol(ctx, "panic", records.len(), format!("k-mer cgr file {tag} k={k} threads={threads} mem={mem}: panicked: {p}"), argv),
        Ok(Err(e)) => return viol(ctx, "error", records.len(), format!("k-mer cgr file {tag}: {e}"), argv),
        Ok(Ok(())) => {}
    }
    let text = std::fs::read_to_string(&outp).unwrap_or_default();
    if !text.is_empty() && text.len() % 4096 == 0 {
        ctx.rep.count("outputs_on_a_4k_multiple", 1);
    }
    let lines: Vec<&str> = text.split('\n').collect();
    let lines = if lines.last() == Some(&"") { &lines[..lines.len() - 1] } else { &lines[..] };
    if lines.len() != records.len() {
        return viol(ctx, "row-count", records.len(), format!("k-mer cgr file {tag} k={k} threads={threads} mem={mem}: {} rows for {} records", lines.len(), records.len()), argv);
    }
    let mut comp = OligoCgrComputer::new("-".into(), "-".into(), k, s_size);
    comp.set_norm(norm);
    for (i, rec) in records.iter().enumerate() {
        // values, not spellings (see c11_file)
        let exp = comp.verif_vectorise_one(rec).unwrap();
        let got = parse_tuples(lines[i], 3);
        let same = matches!(&got, Some(g) if g.len() == exp.len() && g.iter().zip(exp.iter()).all(|(a, b)| a[0].to_bits() == b.0 .0.to_bits() && a[1].to_bits() == b.0 .1.to_bits() && a[2].to_bits() == b.1.to_bits()));
        if !same {
            return viol(ctx, "row-order-or-value", records.len(), format!("k-mer cgr file {tag} k={k} threads={threads} mem={mem}: row {i} ({:?}...) does not hold the triples of record {i}", &lines[i][..lines[i].len().min(60)]), argv);
        }
    }
    ctx.rep.nontrivial += 1;
}

/// One OligoCgrComputer / CgrComputer object, several runs with settings changed through the setters in between.
fn cgr_reuse_sequence(ctx: &mut Ctx, kmer_mode: bool, steps: &[&str]) {
    let inp = format!("{}/cgrr_in.fa", ctx.scratch);
    let outp = format!("{}/cgrr_out.txt", ctx.scratch);
    let records: Vec<Vec<u8>> = if kmer_mode { vec![b"ACGTNAC".to_vec(), b"".to_vec(), b"GGGTTTA".to_vec(), b"AC".to_vec()] } else { vec![b"ACGT".to_vec(), b"".to_vec(), b"GGu".to_vec(), b"a".to_vec()] };
    write_fasta(&inp, &records);
    let _ = std::fs::remove_file(&outp);
    let argv = {
        let mut a = vec!["case".to_string(), if kmer_mode { "C12reuse".to_string() } else { "C11reuse".to_string() }];
        a.extend(steps.iter().map(|s| s.to_string()));
        a
    };
    ctx.journal.note(|| format!("cgr reuse {:?}", argv));
    ctx.rep.evaluations += 1;
    let k = 2usize;
    let mut kc = OligoCgrComputer::new(inp.clone(), outp.clone(), k, 16);
    let mut wc = CgrComputer::new(inp.clone(), outp.clone(), 16);
    let mut norm = true;
    let what = format!("one {} object driven through {:?}, a run after every step", if kmer_mode { "OligoCgrComputer" } else { "CgrComputer" }, steps);
    for (i, step) in std::iter::once(&"run").chain(steps.iter()).enumerate() {
        match *step {
            "raw" => {
                kc.set_norm(false);
                norm = false;
            }
            "norm" => {
                kc.set_norm(true);
                norm = true;
            }
            "threads1" => {
                kc.set_threads(1);
                wc.set_threads(1);
            }
            "threads4" => {
                kc.set_threads(4);
                wc.set_threads(4);
            }
            "mem-low" => {
                kc.verif_set_max_memory(3);
                wc.verif_set_max_memory(3);
            }
            "mem-high" => {
                kc.verif_set_max_memory(4 << 30);
                wc.verif_set_max_memory(4 << 30);
            }
            _ => {}
        }
        let r = guard(|| if kmer_mode { kc.vectorise() } else { wc.vectorise() });
        match r {
            Err(p) => return viol(ctx, "panic", steps.len() * 10 + i, format!("{what}: run {i} panicked: {p}"), argv),
            Ok(Err(e)) => return viol(ctx, "error", steps.len() * 10 + i, format!("{what}: run {i}: {e}"), argv),
            Ok(Ok(())) => {}
        }
        let text = std::fs::read_to_string(&outp).unwrap_or_default();
        let lines: Vec<&str> = text.split('\n').collect();
        let lines = if lines.last() == Some(&"") { &lines[..lines.len() - 1] } else { &lines[..] };
        if lines.len() != records.len() {
            return viol(ctx, "row-count", steps.len() * 10 + i, format!("{what}: run {i} (after {:?}): {} rows for {} records", step, lines.len(), records.len()), argv);
        }
        for (ri, rec) in records.iter().enumerate() {
            // values, not spellings of numbers (see c11_file)
            let exp: Vec<Vec<f64>> = if kmer_mode {
                let mut fresh = OligoCgrComputer::new("-".into(), "-".into(), k, 16);
                fresh.set_norm(norm);
                fresh.verif_vectorise_one(rec).unwrap().iter().map(|v| vec![v.0 .0, v.0 .1, v.1]).collect()
            } else {
                CgrComputer::new("-".into(), "-".into(), 16).verif_vectorise_one(rec).unwrap().iter().map(|p| vec![p.0, p.1]).collect()
            };
            let got = parse_tuples(lines[ri], if kmer_mode { 3 } else { 2 });
            let same = matches!(&got, Some(g) if g.len() == exp.len() && g.iter().zip(exp.iter()).all(|(a, b)| a.iter().zip(b.iter()).all(|(x, y)| x.to_bits() == y.to_bits())));
            if !same {
                return viol(ctx, "row-order-or-value", steps.len() * 10 + i, format!("{what}: run {i} (after {:?}): row {ri} is {:?}, a fresh computer with the same settings gives the values {:?}", step, &lines[ri][..lines[ri].len().min(60)], &exp[..exp.len().min(4)]), argv);
            }
        }
    }
    ctx.rep.nontrivial += 1;
}

pub fn cgr_reuse(ctx: &mut Ctx, kmer_mode: bool) {
    let alphabet: &[&str] = if kmer_mode { &["raw", "norm", "threads1", "threads4", "mem-low", "mem-high", "run"] } else { &["threads1", "threads4", "mem-low", "mem-high", "run"] };
    let mut sh = ctx.shard;
    let mut n = 0u64;
    for a in alphabet {
        for b in alphabet {
            if sh.mine() {
                cgr_reuse_sequence(ctx, kmer_mode, &[a, b]);
                n += 1;
            }
            if ctx.thorough() {
                for c in alphabet {
                    if sh.mine() {
                        cgr_reuse_sequence(ctx, kmer_mode, &[a, b, c]);
                        n += 1;
                    }
                }
            }
        }
    }
    ctx.rep.count("cases.object_reuse_sequences", n);
}

pub fn c12_record_sets() -> Vec<(&'static str, Vec<Vec<u8>>)> {
    vec![
        ("two", vec![b"ACGTAC".to_vec(), b"GGGTTNA".to_vec()]),
        ("five-with-empty", vec![b"ACGAA".to_vec(), b"".to_vec(), b"TN".to_vec(), b"GGCATT".to_vec(), b"acgtacgt".to_vec()]),
        ("all-len-le-3", strings(S5, 1, 3)),
        ("three-hundred", (0..300usize).map(|i| model::text_of((i * 2654435761usize % 65536) as u128, 8)[..(1 + i % 8)].to_vec()).collect()),
        ("long-first", {
            let mut lf = vec![fill(b"ACGGTCAN", 300_000)];
            lf.extend(strings(S4, 1, 2).into_iter().take(6));
            lf
        }),
        ("repeating", repeating_records()),
        ("reads", crate::iters::medium_inputs(200)),
        ("odd-then-same-256", odd_then_same(256)),
        ("odd-then-same-65536", odd_then_same(65_536)),
        ("near-one", near_one_records()),
        ("twenty-thousand", (0..20_000usize).map(|i| model::text_of((i * 2654435761usize % 65536) as u128, 8)[..(1 + (i * 5) % 8)].to_vec()).collect()),
        ("fixed-rows", {
            let mut comp = OligoCgrComputer::new("-".into(), "-".into(), 1, 16);
            comp.set_norm(false);
            let row_len = |r: &Vec<u8>| comp.verif_vectorise_one(r).unwrap().iter().map(|v| format!("({},{},{})", v.0 .0, v.0 .1, v.1)).collect::<Vec<_>>().join(" ").len() + 1;
            let all: Vec<Vec<u8>> = (0..140_000usize).map(|i| model::text_of((i * 2654435761usize % 65536) as u128, 8)[..(2 + (i * 5) % 7)].to_vec()).collect();
            let l0 = row_len(&all[0]);
            all.into_iter().filter(|r| row_len(r) == l0).collect()
        }),
    ]
}

pub fn c12(ctx: &mut Ctx) {
    ctx.lap("start");

    cgr_reuse(ctx, true);
    ctx.lap("c12.reuse");
    let sizes = [1usize, 3, 4, 16, 49, 1000, 65_536, (1 << 20) - 1, 1 << 20];
    let small: Vec<Vec<u8>> = strings(S5, 0, ctx.pick(6, 8));
    let ps = strings(S5, 0, 2);
    let units = strings(S4, 1, 2);
    let mut sh = ctx.shard;
    let mut n = 0u64;
    for k in 1..=7usize {
        let index = model::canon_index(k);
        for &sz in &sizes {
            for norm in [true, false] {
                let mut comp = OligoCgrComputer::new("-".into(), "-".into(), k, sz);
                comp.set_norm(norm);
                let mut oligo = OligoComputer::new("-".into(), "-".into(), k);
                oligo.set_norm(norm);
                if k <= 3 {
                    for s in &small {
                        if sh.mine() {
                            c12_one(ctx, k, sz, norm, &comp, &oligo, &index, s);
                            n += 1;
                            if s.len() >= k {
                                ctx.rep.nontrivial += 1;
                            }
                        }
                    }
                } else {
                    for p in &ps {
                        for u in &units {
                            if !sh.mine() {
                                continue;
                            }
                            for len in [k - 1, k, k + 1, 2 * k + 1, 50] {
                                let mut s = p.clone();
                                s.extend_from_slice(&fill(u, len));
                                s.extend_from_slice(p);
                                c12_one(ctx, k, sz, norm, &comp, &oligo, &index, &s);
                                n += 1;
                                ctx.rep.nontrivial += 1;
                            }
                        }
                    }
                }
            }
        }
    }
    ctx.lap("c12.per_record");
    // long records
    for (i, s) in crate::iters::medium_inputs(ctx.pick(200, 2000)).iter().enumerate() {
        if !sh.mine() || ctx.monitor() {
            continue;
        }
        let (k, norm) = (1 + i % 7, i % 2 == 0);
        let mut comp = OligoCgrComputer::new("-".into(), "-".into(), k, [16usize, 49, 1000][i % 3]);
        comp.set_norm(norm);
        let mut oligo = OligoComputer::new("-".into(), "-".into(), k);
        oligo.set_norm(norm);
        c12_one(ctx, k, [16usize, 49, 1000][i % 3], norm, &comp, &oligo, &model::canon_index(k), s);
        n += 1;
        ctx.rep.nontrivial += 1;
    }
    for (i, &len) in crate::iters::THRESHOLD_LENGTHS.iter().enumerate() {
        let s = crate::iters::long_input(len, 90 + i as u64);
        // even and odd k (reverse-complement palindromes exist for even k only)
        for (k, norm) in [(2usize, true), (3, false), (4, true), (4, false)] {
            if !sh.mine() || ctx.monitor() {
                continue;
            }
            let mut comp = OligoCgrComputer::new("-".into(), "-".into(), k, 16);
            comp.set_norm(norm);
            let mut oligo = OligoComputer::new("-".into(), "-".into(), k);
            oligo.set_norm(norm);
            c12_one(ctx, k, 16, norm, &comp, &oligo, &model::canon_index(k), &s);
            n += 1;
            ctx.rep.nontrivial += 1;
        }
    }
    for (len, seed) in [(4097usize, 1u64), (20_000, 3), (70_000, 4)] {
        let s = crate::iters::long_input(len, seed);
        for k in [1usize, 2, 3, 4, 5, 6, 7] {
            for norm in [true, false] {
                if !sh.mine() {
                    continue;
                }
                let mut comp = OligoCgrComputer::new("-".into(), "-".into(), k, 16);
                comp.set_norm(norm);
                let mut oligo = OligoComputer::new("-".into(), "-".into(), k);
                oligo.set_norm(norm);
                c12_one(ctx, k, 16, norm, &comp, &oligo, &model::canon_index(k), &s);
                n += 1;
                ctx.rep.nontrivial += 1;
            }
        }
    }
    ctx.lap("c12.long");
    // one record with more than 2^24 windows (in one column; spread over three columns)
    for unit in [&b"A"[..], b"ACG"] {
        for norm in [true, false] {
            if !sh.mine() || ctx.monitor() {
                continue;
            }
            let k = 3usize;
            let len = (1usize << 24) + 9 + k;
            let s = fill(unit, len);
            let mut comp = OligoCgrComputer::new("-".into(), "-".into(), k, 16);
            comp.set_norm(norm);
            let mut oligo = OligoComputer::new("-".into(), "-".into(), k);
            oligo.set_norm(norm);
            c12_one_as(ctx, k, 16, norm, &comp, &oligo, &model::canon_index(k), &s, Some((unit, len)));
            n += 1;
            ctx.rep.nontrivial += 1;
            ctx.rep.count("cases.huge_records", 1);
        }
    }
    ctx.rep.count("cases.per_record", n);
    // file path
    let mut sh = ctx.shard;
    let mut nf = 0u64;
    ctx.lap("c12.huge");
    let sets = c12_record_sets();
    ctx.lap("c12.sets");
    // outputs whose size is exactly a multiple of 4 KiB / 8 KiB / 64 KiB (and one row less, one more)
    if !ctx.monitor() {
        let pool = &sets.iter().find(|(t, _)| *t == "twenty-thousand").unwrap().1;
        for (k, norm) in [(1usize, false), (2, true), (2, false)] {
            let mut comp = OligoCgrComputer::new("-".into(), "-".into(), k, 16);
            comp.set_norm(norm);
            let lens: Vec<usize> = pool.iter().map(|r| comp.verif_vectorise_one(r).unwrap().iter().map(|v| format!("({},{},{})", v.0 .0, v.0 .1, v.1)).collect::<Vec<_>>().join(" ").len() + 1).collect();
            for n in boundary_prefixes(&lens, 0) {
                for (threads, mem) in [(1usize, 4usize << 30), (4, 4 << 30), (3, 1000)] {
                    if sh.mine() {
                        c12_file(ctx, &pool[..n], k, 16, norm, threads, mem, &format!("twenty-thousand:{n}"));
                        nf += 1;
                        ctx.rep.count("cases.size_boundaries", 1);
                    }
                }
            }
        }
    }
    ctx.lap("c12.boundary_prefixes");
    for (tag, recs) in &sets {
        if tag.starts_with("odd-then-same") {
            // a handful of settings only: k 3 (sparse columns), one thread (so that one worker sees every record) and four
            for (threads, norm) in [(1usize, false), (1, true), (4, false)] {
                if sh.mine() && !ctx.monitor() {
                    c12_file(ctx, recs, 3, 16, norm, threads, 4 << 30, tag);
                    nf += 1;
                }
            }
            continue;
        }
        if *tag == "twenty-thousand" || *tag == "fixed-rows" || *tag == "near-one" {
            continue;
        }
        for k in [1usize, 2, 3, 5] {
            for threads in [1usize, 2, 4, 16] {
                for mem in [1usize, 5, 4 << 30] {
                    for norm in [true, false] {
                        if sh.mine() {
                            c12_file(ctx, recs, k, 16, norm, threads, mem, tag);
                            nf += 1;
                        }
                    }
                }
            }
        }
    }
    ctx.lap("c12.file_sets");
    let pool = &sets[3].1;
    for nrec in (0..=40usize).chain([63, 64, 65, 127, 129]) {
        for threads in (1..=8usize).chain([16]) {
            for (mem, norm) in [(7usize, true), (4 << 30, false)] {
                if sh.mine() {
                    c12_file(ctx, &pool[..nrec], 2, 16, norm, threads, mem, &format!("three-hundred:{nrec}"));
                    nf += 1;
                }
            }
        }
    }
    ctx.lap("c12.count_lattice");
    if !ctx.monitor() {
        let pool20 = &sets.iter().find(|(t, _)| *t == "twenty-thousand").unwrap().1;
        for &nrec in crate::enumr::POW2_COUNTS.iter() {
            for (threads, mem, norm) in [(1usize, 4usize << 30, false), (4, 4 << 30, true), (3, 2000, false)] {
                if sh.mine() {
                    c12_file(ctx, &pool20[..nrec], 2, 16, norm, threads, mem, &format!("twenty-thousand:{nrec}"));
                    nf += 1;
                }
            }
        }
        ctx.lap("c12.pow2");
        // rows of one fixed length (records whose counts all have one digit): outputs of exactly 4 KiB ... 1 MiB
        let fixed = &sets.iter().find(|(t, _)| *t == "fixed-rows").unwrap().1;
        let l0 = {
            let mut comp = OligoCgrComputer::new("-".into(), "-".into(), 1, 16);
            comp.set_norm(false);
            comp.verif_vectorise_one(&fixed[0]).unwrap().iter().map(|v| format!("({},{},{})", v.0 .0, v.0 .1, v.1)).collect::<Vec<_>>().join(" ").len() + 1
        };
        for &nrec in crate::enumr::DEC_COUNTS.iter().filter(|&&n| n < fixed.len()) {
            for (threads, mem, norm) in [(1usize, 4usize << 30, false), (4, 4 << 30, true), (3, 2000, false)] {
                if sh.mine() {
                    c12_file(ctx, &fixed[..nrec], 1, 16, norm, threads, mem, &format!("fixed-rows:{nrec}"));
                    nf += 1;
                }
            }
        }
        for nrec in crate::conc::boundary_counts(0, l0, fixed.len() - 1) {
            for threads in [1usize, 4] {
                if sh.mine() {
                    c12_file(ctx, &fixed[..nrec], 1, 16, false, threads, 4 << 30, &format!("fixed-rows:{nrec}"));
                    nf += 1;
                    ctx.rep.count("cases.size_boundaries", 1);
                }
            }
        }
    }
    for threads in [1usize, 4] {
        for norm in [true, false] {
            if sh.mine() && !ctx.monitor() {
                c12_file(ctx, &near_one_records(), 3, 16, norm, threads, 4 << 30, "near-one");
                nf += 1;
            }
        }
    }
    ctx.lap("c12.pow2_and_fixed_rows");
    ctx.rep.count("cases.file_runs", nf);
    if ctx.shard.is_first() {
        ctx.rep.sample("per-record: \"ACGTN\" k=2 S=16: column AC at the CGR end point of \"AC\" = (2,10), f = oligo value of AC".to_string());
        ctx.rep.sample("file: 300 records, k=3, threads 16, batch limit 5 bases, counts mode".to_string());
        ctx.rep.notes.push("C12: k 1..=7 x S in (1,4,16,49,2^20) x norm/raw; all S5 strings up to the stated length for k<=3, structured family for k 4..=7; file path x threads (1,2,4,16) x 3 batch limits".to_string());
    }
}

pub fn replay(ctx: &mut Ctx, args: &[String]) {
    match args[0].as_str() {
        "C03" => c03_k(ctx, args[1].parse().unwrap()),
        "C04" => {
            let k: usize = args[2].parse().unwrap();
            c04_one(ctx, &oligo_set(k), "replay", &unhex(&args[1]), true)
        }
        "C03seq" => {
            let ks: Vec<usize> = args[1].split(',').map(|k| k.parse().unwrap()).collect();
            let idx: Vec<Vec<u128>> = (0..=10).map(|k| if k == 0 { vec![] } else { model::canon_index(k) }).collect();
            for (i, &k) in ks.iter().enumerate() {
                let (pm, pk, count) = KmerGenerator::kmer_pos_maps(k);
                let ok = count == idx[k].len() && idx[k].iter().enumerate().all(|(rank, &code)| pm[code as usize] == rank && pk.get(&rank) == Some(&(code as u64)));
                if !ok {
                    viol(ctx, "call-sequence", i, format!("kmer_pos_maps sequence {:?}: call {i} wrong", ks), vec![]);
                    break;
                }
            }
            ctx.rep.evaluations += 1;
        }
        "C11reuse" | "C12reuse" => {
            let steps: Vec<&str> = args[1..].iter().map(|s| s.as_str()).collect();
            cgr_reuse_sequence(ctx, args[0] == "C12reuse", &steps);
        }
        "C12file" => {
            let (base, n) = match args[1].split_once(':') {
                Some((b, n)) => (b.to_string(), n.parse::<usize>().ok()),
                None => (args[1].clone(), None),
            };
            let mut recs = c12_record_sets().into_iter().find(|(t, _)| *t == base).expect("record set").1;
            if let Some(n) = n {
                recs.truncate(n);
            }
            c12_file(ctx, &recs, args[2].parse().unwrap(), args[3].parse().unwrap(), args[4] == "1", args[5].parse().unwrap(), args[6].parse().unwrap(), &args[1])
        }
        "C12huge" => {
            let (u, n, k, sz, norm): (Vec<u8>, usize, usize, usize, bool) = (unhex(&args[1]), args[2].parse().unwrap(), args[3].parse().unwrap(), args[4].parse().unwrap(), args[5] == "1");
            let s = fill(&u, n);
            let mut comp = OligoCgrComputer::new("-".into(), "-".into(), k, sz);
            comp.set_norm(norm);
            let mut oligo = OligoComputer::new("-".into(), "-".into(), k);
            oligo.set_norm(norm);
            c12_one_as(ctx, k, sz, norm, &comp, &oligo, &model::canon_index(k), &s, Some((&u, n)))
        }
        "C04huge" => {
            let (u, n, k): (Vec<u8>, usize, usize) = (unhex(&args[1]), args[2].parse().unwrap(), args[3].parse().unwrap());
            let s = fill(&u, n);
            c04_one_as(ctx, &oligo_set(k), "replay", &s, false, Some((&u, n)))
        }
        "C04long" => {
            let long_set = c04_named_set(args.get(4).map(|s| s.as_str()).unwrap_or("long"));
            c04_file(ctx, args[1].parse().unwrap(), &long_set, &args[2], args[3].parse().unwrap())
        }
        "C04file" => {
            let orders = c04_orders(if args[4] == "3906" { 5 } else { 6 });
            let oi: usize = args.get(5).and_then(|o| o.parse().ok()).unwrap_or(0);
            c04_file(ctx, args[1].parse().unwrap(), &orders[oi], &args[2], args[3].parse().unwrap())
        }
        "C11" | "C11long" => {
            let s: usize = args[2].parse().unwrap();
            let c = CgrComputer::new("-".into(), "-".into(), s);
            if args[0] == "C11" {
                c11_one(ctx, &c, s, "replay", &unhex(&args[1]))
            } else {
                c11_long(ctx, &c, s, &unhex(&args[1]))
            }
        }
        "C11file" => {
            let (base, n) = match args[1].split_once(':') {
                Some((b, n)) => (b.to_string(), n.parse::<usize>().ok()),
                None => (args[1].clone(), None),
            };
            let mut recs = cgr_record_sets().into_iter().find(|(t, _)| *t == base).expect("record set").1;
            if let Some(n) = n {
                recs.truncate(n);
            }
            c11_file(ctx, &recs, args[2].parse().unwrap(), args[3].parse().unwrap(), args[4].parse().unwrap(), &args[1])
        }
        "C12" => {
            let k: usize = args[2].parse().unwrap();
            let s: usize = args[3].parse().unwrap();
            let norm = args[4] == "1";
            let mut comp = OligoCgrComputer::new("-".into(), "-".into(), k, s);
            comp.set_norm(norm);
            let mut oligo = OligoComputer::new("-".into(), "-".into(), k);
            oligo.set_norm(norm);
            c12_one(ctx, k, s, norm, &comp, &oligo, &model::canon_index(k), &unhex(&args[1]))
        }
        _ => panic!("unknown case kind {}", args[0]),
    }
}
