//! Per-run context shared by all checks.
#![allow(dead_code)]
use crate::enumr::Shard;
use crate::out::{Journal, Report};
use std::panic::{catch_unwind, AssertUnwindSafe};

#[derive(Clone, Copy, PartialEq, Eq, Debug)]
pub enum Tier {
    Quick,
    Thorough,
}

pub struct Ctx {
    pub tier: Tier,
    pub shard: Shard,
    pub rep: Report,
    pub journal: Journal,
    pub scratch: String,
    pub clock: std::time::Instant,
}

impl Ctx {
    /// wall time since the previous lap, accumulated per section (maximum over shards after merging is not
    /// meaningful; the sum over shards is CPU time)
    pub fn lap(&mut self, section: &str) {
        let ms = self.clock.elapsed().as_millis() as u64;
        self.clock = std::time::Instant::now();
        self.rep.count(&format!("cpu_ms.{section}"), ms);
    }
    /// the enumeration is run as C14's bounds monitor: families that exist for the sizes of outputs (boundary sweeps,
    /// record counts at powers of two, records with millions of windows) are left to the property's own check
    pub fn monitor(&self) -> bool {
        std::env::var_os("KTMC_MONITOR").is_some()
    }
    pub fn thorough(&self) -> bool {
        self.tier == Tier::Thorough
    }
    /// pick by tier
    pub fn pick<T>(&self, quick: T, thorough: T) -> T {
        if self.thorough() {
            thorough
        } else {
            quick
        }
    }
}

static LAST_PANIC: std::sync::Mutex<Option<String>> = std::sync::Mutex::new(None);

pub fn install_panic_hook() {
    std::panic::set_hook(Box::new(|info| {
        let msg = if let Some(s) = info.payload().downcast_ref::<&str>() {
            s.to_string()
        } else if let Some(s) = info.payload().downcast_ref::<String>() {
            s.clone()
        } else {
            "panic".to_string()
        };
        let loc = info
            .location()
            .map(|l| format!(" at {}:{}", l.file(), l.line()))
            .unwrap_or_default();
        let full = format!("{}{}", msg, loc);
        crate::sched::on_panic(&full);
        *LAST_PANIC.lock().unwrap_or_else(|e| e.into_inner()) = Some(full);
    }));
}

/// run the subject, turning a panic into Err(message)
pub fn guard<T, F: FnOnce() -> T>(f: F) -> Result<T, String> {
    match catch_unwind(AssertUnwindSafe(f)) {
        Ok(v) => Ok(v),
        Err(_) => {
            let msg = LAST_PANIC.lock().unwrap_or_else(|e| e.into_inner()).take().unwrap_or_else(|| "panic (no message)".to_string());
            // a subject that fails because the scratch file system is full says nothing about the property: the
            // environment of the check is broken (machinery failure, exit 2), never a verdict
            if msg.contains("No space left on device") || msg.contains("StorageFull") || msg.contains("Too many open files") {
                eprintln!("MACHINERY: the scratch file system is exhausted ({})", msg);
                std::process::exit(2);
            }
            Err(msg)
        }
    }
}
