//! Controlled scheduler (CHESS-style) over the real rayon worker loops, and the stateless explorer.
//!
//! Real OS threads, but while an execution is *controlled* exactly one registered task runs at a time;
//! every other task is parked inside a hook (`ktio::verif::point`). A decision is taken whenever the
//! running task parks at a point, blocks on a shim mutex or exits. Choices are replayed from a prefix and
//! default to 0 (= keep running the same task if it is still enabled) afterwards.
#![allow(dead_code)]
use ktio::verif::Handler;
use std::cell::Cell;
use std::sync::{Arc, Condvar, Mutex, OnceLock};
use std::time::{Duration, Instant};

#[derive(Clone, Copy, PartialEq, Eq, Debug)]
enum Status {
    Absent,
    Parked,
    Running,
    Blocked(usize),
    Exited,
}

#[derive(Clone, Debug)]
struct Task {
    status: Status,
    site: &'static str,
}

#[derive(Clone, Debug, PartialEq, Eq)]
pub struct Choice {
    /// enabled task ids in canonical order (the task that just ran first if still enabled, then ascending)
    pub enabled: Vec<usize>,
    /// index into `enabled`
    pub chosen: usize,
    /// was the previously running task still enabled (then choosing another one is a preemption)
    pub runner_enabled: bool,
    pub phase: usize,
    pub phase_site: &'static str,
}

#[derive(Clone, Debug, PartialEq, Eq)]
pub struct Event {
    pub phase: usize,
    pub task: usize,
    pub site: &'static str,
    pub arg: u64,
}

#[derive(Default, Clone, Debug)]
pub struct ExecResult {
    pub trace: Vec<Choice>,
    pub events: Vec<Event>,
    pub writes: Vec<(usize, usize, usize)>,
    pub panicked: Option<String>,
    pub deadlock: bool,
    pub divergence: Option<String>,
    pub stalled: bool,
    pub phases: usize,
    pub write_veto: Option<String>,
}

impl ExecResult {
    pub fn choices(&self) -> Vec<u8> {
        self.trace.iter().map(|c| c.chosen as u8).collect()
    }
    pub fn preemptions(&self) -> u32 {
        self.trace.iter().filter(|c| c.chosen != 0 && c.runner_enabled).count() as u32
    }
}

struct State {
    exec: u64,
    active: bool,
    free: bool,
    logging: bool,
    symmetry: bool,
    tasks: Vec<Task>,
    expected: usize,
    threads: usize,
    registered: usize,
    /// the current phase is not controlled (more tasks than pool threads: which tasks start first is rayon's choice)
    phase_free: bool,
    running: Option<usize>,
    last_ran: Option<usize>,
    prefix: Vec<u8>,
    phase: usize,
    phase_site: &'static str,
    last_progress: Instant,
    res: ExecResult,
}

pub struct Controller {
    st: Mutex<State>,
    cv: Condvar,
}

thread_local! {
    /// (execution number, phase, task id) of the controlled task running on this thread
    static TASK: Cell<Option<(u64, usize, usize)>> = const { Cell::new(None) };
}

static CONTROLLER: OnceLock<Arc<Controller>> = OnceLock::new();
const STALL: Duration = Duration::from_secs(30);

pub fn controller() -> Arc<Controller> {
    CONTROLLER
        .get_or_init(|| {
            let c = Arc::new(Controller {
                st: Mutex::new(State {
                    exec: 0,
                    active: false,
                    free: true,
                    logging: false,
                    symmetry: true,
                    tasks: Vec::new(),
                    expected: 0,
                    threads: 0,
                    registered: 0,
                    phase_free: false,
                    running: None,
                    last_ran: None,
                    prefix: Vec::new(),
                    phase: 0,
                    phase_site: "",
                    last_progress: Instant::now(),
                    res: ExecResult::default(),
                }),
                cv: Condvar::new(),
            });
            ktio::verif::set_handler(Some(c.clone() as Arc<dyn Handler>));
            c
        })
        .clone()
}

/// called from the global panic hook
pub fn on_panic(msg: &str) {
    if let Some(c) = CONTROLLER.get() {
        let mine = TASK.with(|t| t.get());
        let mut st = c.st.lock().unwrap_or_else(|e| e.into_inner());
        if st.active {
            if let Some((exec, _, _)) = mine {
                if exec == st.exec && st.res.panicked.is_none() {
                    st.res.panicked = Some(msg.to_string());
                }
            } else if st.res.panicked.is_none() && !msg.starts_with("verif:") {
                st.res.panicked = Some(msg.to_string());
            }
            if !st.free {
                st.free = true;
            }
            c.cv.notify_all();
        }
    }
}

impl Controller {
    fn lock(&self) -> std::sync::MutexGuard<'_, State> {
        self.st.lock().unwrap_or_else(|e| e.into_inner())
    }

    fn my_task(&self, st: &State) -> Option<usize> {
        TASK.with(|t| t.get()).and_then(|(exec, phase, id)| if exec == st.exec && phase == st.phase { Some(id) } else { None })
    }

    /// take a scheduling decision if nobody is running and nobody is still expected to arrive
    fn maybe_decide(&self, st: &mut State) {
        if st.free || st.running.is_some() {
            return;
        }
        let exited = st.tasks.iter().filter(|t| t.status == Status::Exited).count();
        let live = st.registered - exited;
        let to_register = st.expected.saturating_sub(st.registered);
        if to_register > 0 && live < st.threads {
            return; // a pool thread is free and will pick up a pending task: wait for its registration
        }
        let mut enabled: Vec<usize> = Vec::new();
        let mut seen_start = false;
        if let Some(l) = st.last_ran {
            if st.tasks[l].status == Status::Parked {
                enabled.push(l);
                if st.tasks[l].site == "task.start" {
                    seen_start = true;
                }
            }
        }
        for (i, t) in st.tasks.iter().enumerate() {
            if t.status != Status::Parked || Some(i) == st.last_ran {
                continue;
            }
            if st.symmetry && t.site == "task.start" {
                // tasks that have not run any code are interchangeable: offer only the lowest id
                if seen_start {
                    continue;
                }
                seen_start = true;
            }
            enabled.push(i);
        }
        if enabled.is_empty() {
            if st.tasks.iter().any(|t| matches!(t.status, Status::Blocked(_))) {
                st.res.deadlock = true;
                st.free = true;
                self.cv.notify_all();
            }
            return; // all exited: the phase is over
        }
        let pos = st.res.trace.len();
        let idx = if pos < st.prefix.len() { st.prefix[pos] as usize } else { 0 };
        if idx >= enabled.len() {
            st.res.divergence = Some(format!("choice {} at decision {} but only {} task(s) enabled", idx, pos, enabled.len()));
            st.free = true;
            self.cv.notify_all();
            return;
        }
        let runner_enabled = match st.last_ran {
            Some(l) => st.tasks[l].status == Status::Parked,
            None => false,
        };
        let t = enabled[idx];
        let (phase, phase_site) = (st.phase, st.phase_site);
        st.res.trace.push(Choice {
            enabled,
            chosen: idx,
            runner_enabled,
            phase,
            phase_site,
        });
        st.tasks[t].status = Status::Running;
        st.running = Some(t);
        st.last_progress = Instant::now();
        self.cv.notify_all();
    }

    /// park the calling task until it is chosen (or the execution goes free)
    fn wait_turn<'a>(&'a self, mut st: std::sync::MutexGuard<'a, State>, id: usize, exec: u64) {
        loop {
            if st.exec != exec || st.free || st.running == Some(id) {
                return;
            }
            let (g, _) = self.cv.wait_timeout(st, Duration::from_millis(200)).unwrap_or_else(|e| e.into_inner());
            st = g;
            if st.exec == exec && !st.free && st.last_progress.elapsed() > STALL {
                st.res.stalled = true;
                st.free = true;
                self.cv.notify_all();
                return;
            }
        }
    }
}

impl Handler for Controller {
    fn point(&self, site: &'static str, arg: u64) {
        let mut st = self.lock();
        if !st.active || st.free || st.phase_free {
            return;
        }
        let exec = st.exec;
        if site == "task.start" || site == "task.start.id" {
            // symmetric workers are numbered by arrival; workers with an identity (merge: chunk) carry it
            let id = if site == "task.start" { st.tasks.len() } else { arg as usize };
            while st.tasks.len() <= id {
                st.tasks.push(Task {
                    status: Status::Absent,
                    site: "",
                });
            }
            st.tasks[id] = Task {
                status: Status::Parked,
                site,
            };
            st.registered += 1;
            let phase = st.phase;
            TASK.with(|t| t.set(Some((exec, phase, id))));
            // registrations arrive in an arbitrary order: they are not part of the (deterministic) event log
            self.maybe_decide(&mut st);
            self.wait_turn(st, id, exec);
            return;
        }
        let id = match self.my_task(&st) {
            Some(id) => id,
            None => return, // a thread that is not a controlled task (main thread, scope owner)
        };
        let phase = st.phase;
        st.res.events.push(Event {
            phase,
            task: id,
            site,
            arg,
        });
        st.tasks[id].site = site;
        st.tasks[id].status = if site == "task.exit" { Status::Exited } else { Status::Parked };
        st.running = None;
        st.last_ran = Some(id);
        self.maybe_decide(&mut st);
        if site == "task.exit" {
            TASK.with(|t| t.set(None));
            return;
        }
        self.wait_turn(st, id, exec);
    }

    fn scope_begin(&self, site: &'static str, tasks: usize, threads: usize) {
        let mut st = self.lock();
        if !st.active || st.free {
            return;
        }
        st.phase += 1;
        st.phase_site = site;
        st.tasks.clear();
        st.expected = tasks;
        st.threads = threads.max(1);
        st.registered = 0;
        st.phase_free = tasks > threads;
        st.running = None;
        st.last_ran = None;
        st.res.phases = st.phase;
        st.last_progress = Instant::now();
    }

    fn log_write(&self, pos: usize, len: usize, cap: usize) {
        let mut st = self.lock();
        if !st.logging {
            return;
        }
        st.res.writes.push((pos, len, cap));
        if pos.checked_add(len).map(|e| e > cap).unwrap_or(true) {
            let msg = format!("verif: mapped write of {} bytes at offset {} exceeds the mapping of {} bytes", len, pos, cap);
            if st.res.write_veto.is_none() {
                st.res.write_veto = Some(msg.clone());
            }
            drop(st);
            // refuse the write before it happens: the violating execution is reported instead of corrupting memory
            panic!("{}", msg);
        }
    }

    fn blocked(&self, mutex: usize) {
        let mut st = self.lock();
        if !st.active {
            drop(st);
            std::thread::yield_now();
            return;
        }
        if st.free {
            let dead = st.res.deadlock;
            drop(st);
            if dead {
                panic!("verif: deadlock - task unwound");
            }
            std::thread::yield_now();
            return;
        }
        let exec = st.exec;
        let id = match self.my_task(&st) {
            Some(id) => id,
            None => {
                drop(st);
                std::thread::yield_now();
                return;
            }
        };
        st.tasks[id].status = Status::Blocked(mutex);
        st.tasks[id].site = "mutex.blocked";
        st.running = None;
        st.last_ran = Some(id);
        self.maybe_decide(&mut st);
        self.wait_turn(st, id, exec);
    }

    fn released(&self, mutex: usize) {
        let mut st = self.lock();
        if !st.active || st.free {
            return;
        }
        for t in st.tasks.iter_mut() {
            if t.status == Status::Blocked(mutex) {
                t.status = Status::Parked;
            }
        }
    }
}

#[derive(Clone, Copy)]
pub struct ExecOpts {
    pub controlled: bool,
    pub logging: bool,
    pub symmetry: bool,
}

/// run `f` once under the controller with the given choice prefix
pub fn execute<R, F: FnOnce() -> R>(prefix: &[u8], opts: ExecOpts, f: F) -> (Result<R, String>, ExecResult) {
    let c = controller();
    {
        let mut st = c.lock();
        st.exec += 1;
        st.active = opts.controlled;
        st.free = !opts.controlled;
        st.logging = opts.logging;
        st.symmetry = opts.symmetry;
        st.tasks.clear();
        st.expected = 0;
        st.threads = 1;
        st.registered = 0;
        st.phase_free = false;
        st.running = None;
        st.last_ran = None;
        st.prefix = prefix.to_vec();
        st.phase = 0;
        st.phase_site = "";
        st.last_progress = Instant::now();
        st.res = ExecResult::default();
    }
    let r = crate::ctx::guard(f);
    let mut st = c.lock();
    st.active = false;
    st.free = true;
    st.logging = false;
    c.cv.notify_all();
    let res = std::mem::take(&mut st.res);
    (r, res)
}

// ------------------------------------------------------------------------------------------ explorer

#[derive(Default, Clone, Debug)]
pub struct ExploreStats {
    pub executions: u64,
    /// executions by number of preemptions (index = preemptions)
    pub by_preemptions: Vec<u64>,
    pub choice_points: u64,
    pub branching_points: u64,
    pub max_trace: usize,
    pub pruned_by_bound: u64,
    pub capped: bool,
    /// the largest preemption count all of whose schedules were executed (None: not even the first round finished)
    pub completed_bound: Option<u32>,
}

pub struct ExploreCfg<'a> {
    /// maximum number of preemptions (None = unbounded)
    pub bound: Option<u32>,
    /// this process explores only the subtrees assigned to it below the split level
    pub shard: (u64, u64),
    pub split_level: usize,
    /// initial choice prefix (exploration branches only after it)
    pub root: Vec<u8>,
    /// only choice points satisfying this predicate are branched on
    pub branch: &'a dyn Fn(&Choice) -> bool,
    /// hard cap on executions (reported as a cap, never as exhaustive)
    pub max_executions: u64,
    /// branch only on the first `window` decisions of an execution (None = all): on inputs with tens of thousands of
    /// records this explores every way of preempting the workers while they handle the first records, each followed
    /// by the default continuation (the running worker goes on until it blocks or exits)
    pub window: Option<usize>,
}

/// Exploration by re-execution with iterative preemption bounding: all schedules with 0 preemptions first (depth
/// first among them), then those with 1, then 2, ... up to `cfg.bound` (or until none is left). A schedule needing
/// b preemptions is executed exactly once, in round b: the children that exceed the current round's bound are kept
/// for the next round instead of being re-derived. `run` executes one schedule (given as a choice prefix) and
/// returns its result after having checked the oracle; it returns false to stop the search. The first
/// counterexample found is therefore one with the fewest preemptions. A wall-time budget (`KTMC_CASE_BUDGET_S`,
/// default by tier) ends an exploration early; that is reported as a cap together with the last completed bound,
/// never as exhaustive.
pub fn explore<F: FnMut(&[u8], bool) -> (ExecResult, bool)>(cfg: &ExploreCfg, mut run: F) -> ExploreStats {
    let mut stats = ExploreStats::default();
    let started = Instant::now();
    let budget = Duration::from_secs(std::env::var("KTMC_CASE_BUDGET_S").ok().and_then(|v| v.parse().ok()).unwrap_or(900));
    // stack of (prefix, number of deviations in it beyond the root, owned) for the current round; `later` holds the
    // prefixes whose preemption count is one above the current round's
    let mut stack: Vec<(Vec<u8>, usize, bool)> = vec![(cfg.root.clone(), 0, true)];
    let mut later: Vec<(Vec<u8>, usize, bool)> = Vec::new();
    let mut round: u32 = 0;
    let mut split_counter: u64 = 0;
    let mut stopped = false;
    let mut first = true;
    loop {
        while let Some((prefix, devs, owned)) = stack.pop() {
            if stats.executions >= cfg.max_executions || started.elapsed() > budget || later.len() > 4_000_000 {
                stats.capped = true;
                break;
            }
            // executions above the split level are run by every shard but counted by shard 0 only
            let counted = if devs < cfg.split_level { cfg.shard.0 == 0 } else { owned };
            let (res, go_on) = run(&prefix, counted);
            if std::env::var_os("KTMC_DEBUG").is_some() && stats.executions % 500 == 0 {
                eprintln!("explore: round {} {} executions, stack {}, later {}, prefix {} trace {} pre {} phases {:?}", round, stats.executions, stack.len(), later.len(), fmt_choices(&prefix), res.trace.len(), res.preemptions(), res.trace.iter().map(|c| c.phase).max());
            }
            if counted {
                stats.executions += 1;
                let p = res.preemptions() as usize;
                if stats.by_preemptions.len() <= p {
                    stats.by_preemptions.resize(p + 1, 0);
                }
                stats.by_preemptions[p] += 1;
                stats.choice_points += res.trace.len() as u64;
                stats.max_trace = stats.max_trace.max(res.trace.len());
            }
            if !go_on || res.divergence.is_some() || res.stalled {
                stopped = true;
                break;
            }
            let choices = res.choices();
            // children in reverse order so that the earliest deviation is explored first (simplest first)
            let mut children: Vec<(Vec<u8>, usize, bool)> = Vec::new();
            let mut pre: u32 = res.trace[..prefix.len().min(res.trace.len())].iter().filter(|c| c.chosen != 0 && c.runner_enabled).count() as u32;
            if first {
                // a root prefix may already contain preemptions: the rounds are numbered by total preemptions
                round = pre;
                first = false;
            }
            for i in prefix.len()..res.trace.len() {
                let c = &res.trace[i];
                if (cfg.branch)(c) && c.enabled.len() > 1 && cfg.window.map_or(true, |w| i < w) {
                    if counted {
                        stats.branching_points += 1;
                    }
                    for alt in 1..c.enabled.len() {
                        let cost = pre + if c.runner_enabled { 1 } else { 0 };
                        if let Some(b) = cfg.bound {
                            if cost > b {
                                if counted {
                                    stats.pruned_by_bound += 1;
                                }
                                continue;
                            }
                        }
                        let mut child = choices[..i].to_vec();
                        child.push(alt as u8);
                        let cdevs = devs + 1;
                        let cowned = if cdevs == cfg.split_level {
                            let mine = split_counter % cfg.shard.1 == cfg.shard.0;
                            split_counter += 1;
                            mine
                        } else {
                            owned
                        };
                        if cdevs >= cfg.split_level && !cowned {
                            continue;
                        }
                        if cost > round {
                            later.push((child, cdevs, cowned));
                        } else {
                            children.push((child, cdevs, cowned));
                        }
                    }
                }
                if c.chosen != 0 && c.runner_enabled {
                    pre += 1;
                }
            }
            for ch in children.into_iter().rev() {
                stack.push(ch);
            }
        }
        if stopped || stats.capped {
            break;
        }
        // the round is complete: every schedule with at most `round` preemptions (of this shard's share) was executed
        stats.completed_bound = Some(round);
        if later.is_empty() {
            break;
        }
        round += 1;
        later.reverse();
        stack = std::mem::take(&mut later);
    }
    stats
}

pub fn fmt_choices(c: &[u8]) -> String {
    c.iter().map(|x| x.to_string()).collect::<Vec<_>>().join("")
}

pub fn parse_choices(s: &str) -> Vec<u8> {
    s.bytes().filter(|b| b.is_ascii_digit()).map(|b| b - b'0').collect()
}
