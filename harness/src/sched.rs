//! controlled scheduler (to be filled in)
pub fn on_panic(_msg: &str) {}
